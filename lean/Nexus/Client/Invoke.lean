/-
  Client model, part 4 (L3): invocation handling — `runHandleInvocation`,
  `cleanupInvHandlersQueue`, `runHandleInterrupt` and the two goroutines started per invocation
  (client/client.go), as a transition system:

    * the receive loop's part: `recvInvocation` (everything `runHandleInvocation` does up to the
      send into the worker's queue; if the queue is full the loop stays blocked: `pendingSend`),
      `queueSendDone`, `queueSendAbandon` (the worker's context ended or EndRecv was called),
      `recvInterrupt`;
    * per worker, the INNER goroutine (takes invocations from the queue, calls the application's
      handler, hands results to `resChan`, finally runs `cleanupInvHandlersQueue`): `innerTake`,
      `handlerReturn` (environment: the application's handler returns; `drop` = the select after it
      took the Done / ctx.Done branch instead of `resChan <- result`), `innerSendRetry`,
      `innerExit`;
    * per worker, the OUTER goroutine (waits for a result, the worker context or client Done,
      then answers with one YIELD or ERROR and removes the kill switch): `outerTake`,
      `outerCtx`, `outerDone`, `outerAnswer`;
    * `invTimeout` (the context deadline derived from the INVOCATION's `timeout` detail),
      `clientDone`, `tick`.

  Workers are numbered in creation order.  `queueCap`, `resCap` and whether the `IsNewRecvID`
  gate guards worker creation are regenerated facts; `updateLastRecvID` is the regenerated
  translation of `Session.UpdateLastRecvIDLocked`.  Core-only.
-/
import Nexus.Client.Ppt
import Nexus.Gen.Ids

namespace Nexus.Client.I
open Nexus.Gen Nexus.Client

/-- An INVOCATION as the worker sees it. -/
structure Inv where
  req : Nat
  reg : Nat
  details : Dict := []
  args : List Val := []
  kw : Dict := []
  deriving Repr, Inhabited

def Inv.progress (i : Inv) : Bool := i.details.optFlag N.OptProgress
def Inv.recvProgress (i : Inv) : Bool := i.details.optFlag N.OptReceiveProgress
def Inv.timeout (i : Inv) : Int := i.details.optInt N.OptTimeout

/-- What the application's handler returned: `InvokeResult.Err` ("" = a normal result). -/
structure HRes where
  err : String := ""
  deriving Repr, Inhabited, DecidableEq

def HRes.isOmit (r : HRes) : Bool := r.err == N.InternalProgressiveOmitResult

inductive CtxKind where
  | canceled | deadline
  deriving Repr, DecidableEq, Inhabited

inductive Inner where
  | idle                      -- in the select on (handlerQueue, c.Done, ctx.Done)
  | running (i : Inv)         -- inside the application's handler
  | sending (r : HRes)        -- in the select on (resChan <- result, c.Done, ctx.Done)
  | exited
  deriving Repr, Inhabited

inductive Outer where
  | waiting                   -- in the select on (resChan, c.Done, ctx.Done)
  | final (r : HRes)          -- decided what to answer
  | exited (answered : Bool)
  deriving Repr, Inhabited

structure Worker where
  req : Nat := 0
  reg : Nat := 0
  live : Bool := false        -- entry in invHandlersQueues / invHandlersCtxs
  queue : List Inv := []      -- handlerQueue, oldest first
  ctx : Option CtxKind := none
  deadline : Option Nat := none
  progOK : Bool := false
  inner : Inner := .idle
  loopMore : Bool := true     -- processMessages
  res : List HRes := []       -- resChan, oldest first
  outer : Outer := .waiting
  accepted : List Inv := []   -- ghost: everything put into the queue, newest first
  handled : List Inv := []    -- ghost: everything given to the handler, newest first
  final : Bool := false       -- invHandlersFinal: the invocation's last (non-progressive) message was received
  spArmed : Bool := false     -- the handler is inside SendProgress, past the progGate lookup
  deriving Repr, Inhabited

inductive Out where
  | send (m : CMsg)                          -- client → router
  | created (w : Nat) (req reg : Nat)        -- a worker was started
  | handlerStart (w : Nat) (i : Inv)         -- the application's handler was called
  | answer (w : Nat) (m : CMsg)              -- the worker's one YIELD / ERROR
  | ignored (req : Nat)                      -- INVOCATION discarded by the IsNewRecvID gate
  | lost (w : Nat) (i : Inv)                 -- queued after the worker stopped reading
  | repeated (req : Nat)                     -- INVOCATION for an invocation whose final message was already received: dropped
  | abandoned (w : Nat) (i : Inv)            -- the loop gave up waiting for room in the queue
  | progressSent (w : Nat)                   -- ghost: SendProgress of worker w's handler sent its YIELD
  | progressRefused (w : Nat)                -- SendProgress returned ErrCallerNoProg / ErrNotConn
  deriving Repr, Inhabited

/-- Regenerated: `invHandlersFinal` is consulted for a live queue, set for every non-progressive
    message and cleared by the cleanup (fix c166f26). -/
def genFinalGate : Bool := Client.invFinalGate && Client.invFinalSet && Client.invFinalCleared

/-- Regenerated: the send into the worker's queue is in a select that also watches the worker's
    context and the session's RecvDone. -/
def genEnqueueEscapes : Bool :=
  Client.enqueueSelect == ["send handlerQueue", "recv ctx.Done()", "recv c.sess.RecvDone()"]

structure Cfg where
  invGate : Bool := Client.invGateChecked
  finalGate : Bool := genFinalGate
  enqueueEscapes : Bool := genEnqueueEscapes
  queueCap : Nat := Client.invQueueCap
  resCap : Nat := Client.resChanCap
  ppt : PptFacts := PptFacts.gen
  deser : Deser := fun _ _ => .err

structure State where
  now : Nat := 0
  lastRecv : UInt64 := 0
  n : Nat := 0                          -- workers created
  ws : Nat → Worker := fun _ => {}
  kill : Nat → Option Nat := fun _ => none     -- invHandlerKill: request id → worker
  progGate : Nat → Bool := fun _ => false
  pendingSend : Option (Nat × Inv) := none     -- run is blocked in `handlerQueue <- msg`
  clientDone : Bool := false
  recvDone : Bool := false                     -- sess.EndRecv was called (Close forcing the loop out, abortSession)
  crashed : Option String := none
  out : List Out := []

def State.setW (st : State) (w : Nat) (x : Worker) : State :=
  { st with ws := fun w' => if w' = w then x else st.ws w' }

def State.emit (st : State) (o : Out) : State := { st with out := o :: st.out }

/-- Index of the live worker for (registration, request), searching the `n` created so far. -/
def findLive (st : State) (reg req : Nat) : Nat → Option Nat
  | 0 => none
  | k + 1 =>
    let w := st.ws k
    if w.live && w.reg == reg && w.req == req then some k else findLive st reg req k

def tINVOCATION : Nat := 68

inductive Ev where
  | tick (d : Nat)
  | clientDone
  | endRecv
  | queueSendAbandon
  | recvInvocation (i : Inv) (hasHandler : Bool)
  | queueSendDone
  | recvInterrupt (req : Nat)
  | innerTake (w : Nat)
  | handlerReturn (w : Nat) (r : HRes) (drop : Bool)
  | innerSendRetry (w : Nat)
  | innerExit (w : Nat)
  | outerTake (w : Nat)
  | outerCtx (w : Nat)
  | outerDone (w : Nat)
  | outerAnswer (w : Nat) (skip : Bool)
  | invTimeout (w : Nat)
  -- the handler of worker w calls SendProgress (application code, while it runs)
  | spCheck (w : Nat)        -- the ctx value and `c.progGate[req]` lookups
  | spSend (w : Nat)         -- `select { case c.sess.Send() <- yield:`
  | spAbandon (w : Nat)      -- `case <-ctx.Done(): }`
  deriving Repr, Inhabited

/-- `cleanupInvHandlersQueue`: forget the queue and drain it. -/
def cleanup (x : Worker) : Worker := { x with live := false, queue := [], inner := .exited, final := false }

/-- After the handler's result went into `resChan`: stop on an error result, else go on reading
    while the last invocation was a progressive chunk. -/
def afterResult (x : Worker) (r : HRes) : Worker :=
  if r.err != "" && !r.isOmit then cleanup x
  else if x.loopMore then { x with inner := .idle } else cleanup x

/-- The deferred part of the outer goroutine: remove progGate and kill switch, cancel the ctx. -/
def outerFinish (st : State) (w : Nat) (answered : Bool) : State :=
  let x := st.ws w
  let st := { st with kill := fun r => if r = x.req then none else st.kill r,
                      progGate := fun r => if r = x.req then false else st.progGate r }
  st.setW w { x with outer := .exited answered, ctx := some (x.ctx.getD .canceled) }

/-- A further INVOCATION for a live worker: mark the invocation final if this is its last message,
    then `select { handlerQueue <- msg; … }` (the loop stays blocked while the queue is full). -/
def enqueue (cfg : Cfg) (st : State) (w : Nat) (i : Inv) : State :=
  let st := { st with lastRecv := (updateLastRecvID st.lastRecv (UInt64.ofNat i.req)).1 }
  let x := st.ws w
  let x := { x with final := x.final || (cfg.finalGate && !i.progress) }
  if x.queue.length < cfg.queueCap then
    st.setW w { x with queue := x.queue ++ [i], accepted := i :: x.accepted }
  else { st.setW w x with pendingSend := some (w, i) }

/-- A new worker for invocation `i` (queue, context, kill switch, progress gate). -/
def create (st : State) (i : Inv) (fin : Bool) : State :=
  let w := st.n
  let x : Worker := { req := i.req, reg := i.reg, live := true, queue := [i], accepted := [i],
                      deadline := if i.timeout > 0 then some (st.now + i.timeout.toNat) else none,
                      progOK := i.recvProgress, final := fin }
  let st := { st with lastRecv := (updateLastRecvID st.lastRecv (UInt64.ofNat i.req)).1, n := st.n + 1,
                      kill := fun r => if r = i.req then some w else st.kill r,
                      progGate := fun r => if r = i.req then (i.recvProgress || st.progGate r) else st.progGate r }
  (st.setW w x).emit (.created w i.req i.reg)

/-- The part of `runHandleInvocation` after the handler lookup and the PPT handling succeeded. -/
def accept (cfg : Cfg) (st : State) (i : Inv) : State :=
  match findLive st i.reg i.req st.n with
  | some w =>
    -- the last message of this invocation was already received: a repeat from the router, dropped
    if cfg.finalGate && (st.ws w).final then st.emit (.repeated i.req)
    else enqueue cfg st w i
  | none =>
    if cfg.invGate && !(updateLastRecvID st.lastRecv (UInt64.ofNat i.req)).2 then st.emit (.ignored i.req)
    else create st i (cfg.finalGate && !i.progress)

def recvInvocation (cfg : Cfg) (st : State) (i : Inv) (hasHandler : Bool) : Option State :=
  if st.pendingSend.isSome then none else
  if !hasHandler then some (st.emit (.send (.error tINVOCATION i.req N.ErrInvalidArgument))) else
  match invocationPpt cfg.ppt cfg.deser i.details i.args i.kw with
  | .panic site => some { st with crashed := some site }
  | .ok (.errorReply _) => some (st.emit (.send (.error tINVOCATION i.req N.ErrInvalidArgument)))
  | .ok (.proceed a k) => some (accept cfg st { i with args := a, kw := k })

def step (cfg : Cfg) (st : State) (ev : Ev) : Option State :=
  if st.crashed.isSome then none else
  match ev with
  | .tick d => some { st with now := st.now + d }
  | .clientDone => some { st with clientDone := true }
  | .endRecv => some { st with recvDone := true }
  | .queueSendAbandon =>
    -- the other cases of the select around `handlerQueue <- msg`
    match st.pendingSend with
    | some (w, i) =>
      if cfg.enqueueEscapes && ((st.ws w).ctx.isSome || st.recvDone) then
        some ({ st with pendingSend := none }.emit (.abandoned w i))
      else none
    | none => none
  | .recvInvocation i h => recvInvocation cfg st i h
  | .queueSendDone =>
    match st.pendingSend with
    | some (w, i) =>
      let x := st.ws w
      if x.queue.length < cfg.queueCap then
        let st := { st with pendingSend := none }
        if x.live then some (st.setW w { x with queue := x.queue ++ [i], accepted := i :: x.accepted })
        else some ((st.setW w { x with queue := x.queue ++ [i] }).emit (.lost w i))
      else none
    | none => none
  | .recvInterrupt req =>
    if st.pendingSend.isSome then none else
    let st := { st with lastRecv := (updateLastRecvID st.lastRecv (UInt64.ofNat req)).1 }
    match st.kill req with
    | none => some st
    | some w =>
      let x := st.ws w
      some (st.setW w { x with ctx := some (x.ctx.getD .canceled) })
  | .innerTake w =>
    let x := st.ws w
    match x.inner, x.queue with
    | .idle, i :: rest =>
      if w < st.n then
        some ((st.setW w { x with inner := .running i, queue := rest, loopMore := i.progress,
                                  handled := i :: x.handled }).emit (.handlerStart w i))
      else none
    | _, _ => none
  | .handlerReturn w r drop =>
    let x := st.ws w
    match x.inner with
    | .running _ =>
      -- the select after the handler: with Done / ctx.Done ready it may return without a result
      if drop then (if st.clientDone || x.ctx.isSome then some (st.setW w (cleanup x)) else none)
      else if x.res.length < cfg.resCap then some (st.setW w (afterResult { x with res := x.res ++ [r] } r))
      else some (st.setW w { x with inner := .sending r })
    | _ => none
  | .innerSendRetry w =>
    let x := st.ws w
    match x.inner with
    | .sending r =>
      if x.res.length < cfg.resCap then some (st.setW w (afterResult { x with res := x.res ++ [r] } r)) else none
    | _ => none
  | .innerExit w =>
    let x := st.ws w
    if w < st.n && (st.clientDone || x.ctx.isSome) then
      match x.inner with
      | .idle => some (st.setW w (cleanup x))
      | .sending _ => some (st.setW w (cleanup x))
      | _ => none
    else none
  | .outerTake w =>
    let x := st.ws w
    match x.outer, x.res with
    | .waiting, r :: rest =>
      if w < st.n then
        if r.isOmit then some (st.setW w { x with res := rest })
        else some (st.setW w { x with res := rest, outer := .final r })
      else none
    | _, _ => none
  | .outerCtx w =>
    let x := st.ws w
    match x.outer with
    | .waiting =>
      if w < st.n && x.ctx.isSome then some (st.setW w { x with outer := .final { err := N.ErrCanceled } }) else none
    | _ => none
  | .outerDone w =>
    let x := st.ws w
    match x.outer with
    | .waiting => if w < st.n && st.clientDone then some (outerFinish st w false) else none
    | _ => none
  | .outerAnswer w skip =>
    let x := st.ws w
    match x.outer with
    | .final r =>
      if skip then (if st.clientDone then some (outerFinish st w false) else none)
      else
        let m : CMsg := if r.err != "" then .error tINVOCATION x.req r.err else .yield x.req false
        some (outerFinish ((st.emit (.send m)).emit (.answer w m)) w true)
    | _ => none
  | .invTimeout w =>
    let x := st.ws w
    match x.deadline, x.ctx with
    | some d, none => if w < st.n && st.now ≥ d then some (st.setW w { x with ctx := some .deadline }) else none
    | _, _ => none
  | .spCheck w =>
    let x := st.ws w
    match x.inner with
    | .running _ =>
      if x.spArmed then none
      else if x.progOK && st.progGate x.req then some (st.setW w { x with spArmed := true })
      else some (st.emit (.progressRefused w))
    | _ => none
  | .spSend w =>
    let x := st.ws w
    if x.spArmed then some (((st.setW w { x with spArmed := false }).emit (.send (.yield x.req true))).emit (.progressSent w))
    else none
  | .spAbandon w =>
    let x := st.ws w
    if x.spArmed && x.ctx.isSome then some ((st.setW w { x with spArmed := false }).emit (.progressRefused w))
    else none

def steps (cfg : Cfg) (st : State) : List Ev → Option State
  | [] => some st
  | e :: es => (step cfg st e).bind fun st' => steps cfg st' es

def Reachable (cfg : Cfg) (st : State) : Prop := ∃ evs, steps cfg {} evs = some st

/-- The receive loop is blocked in `handlerQueue <- msg` and the worker will not take another
    message unless its handler returns. -/
def QueueBlocked (st : State) : Prop := st.pendingSend.isSome = true

end Nexus.Client.I
