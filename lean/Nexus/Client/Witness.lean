/-
  Client model: the concrete witness histories of the `…_full_fails` theorems (as lists of atomic
  events) and the reconciliation record of the source hashes.  The driver exposes the witnesses
  (`{"q":"witness"}`) so the family can replay the same history against the real client and
  compare.  Core-only.
-/
import Nexus.Client.Sim

namespace Nexus.Client.Witness
open Nexus.Gen Nexus.Client

/-- sha256 of the gofmt-normalised source each modelled function had when the model was last
    reconciled with it.  A differing hash is not an alarm: it widens the family's run. -/
def reconciled : List (String × String) := [
  ("isPPTSchemeValid", "6d5d4cf509766a4b999bc15d11ee57bf3da1b03d88fd3ce32b3d46dc1e88e719"),
  ("unpackPPTPayload", "e70909dbbb3b618061e79b89ef2efb1776e0b39524568a95c502b368b4dfb89c"),
  ("unpackE2EEPayload", "ceda0104ba5f4495a6a691c60cae3f8cdd52614dba6f4bbe6bd00d70054f8d6b"),
  ("NewClient", "d53933a34180137194ab92f6f1958cc1f211da359a16d4e88838dc0c61d70489"),
  ("Subscribe", "8bef8be78bff9017989c44d357a910420fd7385b63d0f893eac1ae2e36ef1c58"),
  ("Unsubscribe", "c7c016873fcea9b2613661d39b3ad5caa1d25274c606916f02d08db9695c6744"),
  ("Publish", "2e091cb8ca9fc498ddaa6d26f551aa33f98bf8e7afa3d4d8ea935db5b4e88438"),
  ("Register", "3f0655031be8fc96f194d3a73494790af429db79af1f42fab178b33c571f80e3"),
  ("Unregister", "87864c9249a49feff9b2cb85b8d4b4eb52a3c0429c25b9ce6fed591a3e0de668"),
  ("Call", "d3d6f44b1b481650ab5ce3ec464b73fe8d6b66f4e28cedf18a2a959dcd233236"),
  ("CallProgressive", "ae2993b545fc95106afd55a41b9f6cbd826ca4ba8175e6bcb718a5d70dfe24c2"),
  ("Close", "92c2dcfb49bd1c5e86d1904513eb54a05843dbbc5acdea8ba278e3ec3aa182c4"),
  ("SendProgress", "fce9afbfef19dc1907765fe5b5ba2002d3b983eb052d3f23f2339476b0ac3686"),
  ("expectReply", "6bdd15ec600d9fbb8c1531eb20c4ccf690900ec87e8579257bff8b653101a50a"),
  ("waitForReply", "c0347f054ffc8a683f8b37c5eed87824986c449410edb848b368ad3c0ca54551"),
  ("waitForReplyWithCancel", "b4844c01590e065f53ce25eb32b937f5cb918cf5ac6dd438238588afe903dbb4"),
  ("run", "275f8d4606c6c62d02bf35e8ae8cf2f1631091fb933e3116ad67fc8f418a8acf"),
  ("runReceiveFromRouter", "0efc9adef9ad07c535ad6045ddeb3aed03b158ff6c42b694eaeb027e644abd95"),
  ("runHandleEvent", "73a0bef1a1b5822bd8845c002813a3a921f221cc715e30a7121de1211e240cfd"),
  ("cleanupInvHandlersQueue", "59b2837e45300365c394334e79c2bf47563418e2fa1c4e894dae0d5fdaa5e3da"),
  ("runHandleInvocation", "29f7995052ea42ad4afd9c2c0fa85337cb287ef2ef009c7c6b236e81cee218de"),
  ("runHandleInterrupt", "3eabc72d8c6e3fb7c0c18a587b0e22bd5f45ac6fb933b36e4c99b0848107da76"),
  ("runSignalReply", "07aa0f0592c0dfef54933b118fb33eff63331a4c187e098adcb956ac27506229"),
  ("prepareCallResultMessage", "ab06529774d809e8ae28e630e2be4b753e7cafbd7f8d5240434ffcf3ca425e4b")]

/-- Modelled functions whose source differs from the reconciled text. -/
def changedFunctions : List String :=
  (Client.funcHashes.filter fun p => !(reconciled.any fun q => q.1 == p.1 && q.2 == p.2)).map (·.1)

def hashesReconciled : Bool := changedFunctions.isEmpty

/-! ### witnesses -/

/-- F16: SUBSCRIBE; the response timer fires; the SUBSCRIBED arrives and `run` looks the waiter
    up before the waiter has deleted its entry; the waiter deletes the entry and returns
    ErrReplyTimeout; `run` is left in `w <- msg` for ever.  Then Close: GOODBYE, the router's
    GOODBYE is never read, EndRecv, `<-c.Done()` for ever. -/
def f16 : List R.Ev := [
  .apiStart 1 .subscribe "t1" false, .apiWait 1,
  .tick 1000, .timeout 1,
  .inject (.subscribed 1 5), .runRecv,
  .finish 1,
  .closeStart, .inject (.goodbye [] "wamp.close.goodbye_and_out"), .tick 2000, .closeForce]

/-- The same wedge without any timing: the router answers one SUBSCRIBE twice. -/
def f16dup : List R.Ev := [
  .apiStart 1 .subscribe "t1" false, .apiWait 1,
  .inject (.subscribed 1 5), .inject (.subscribed 1 5),
  .runRecv, .deliver, .runRecv,
  .finish 1,
  .closeStart, .tick 2000, .closeForce]

/-- RESULT with `ppt_scheme` from a dealer that did not announce the feature: Call sends ABORT
    and closes the session's send side; the next send (Close's GOODBYE) is on a closed channel. -/
def pptAbort : List R.Ev := [
  .apiStart 1 .call "p1" false, .apiWait 1,
  .inject (.result 1 [(N.OptPPTScheme, .str "x_a")] [] []), .runRecv, .deliver, .finish 1,
  .closeStart]

def pptAbortCfg : R.Cfg := { dealerPPT := false }

/-- Three INVOCATIONs with one request id while the handler is still running the first: the
    second fills the queue, the third blocks `run` in `handlerQueue <- msg`; the INTERRUPT that
    would end the handler is never read. -/
def dupInv : List I.Ev := [
  .recvInvocation { req := 1, reg := 9 } true, .innerTake 0,
  .recvInvocation { req := 1, reg := 9 } true,
  .recvInvocation { req := 1, reg := 9 } true]

structure Run where
  log : List Sim.Obs
  stuck : Bool
  crashed : Option String
  ops : Nat → R.OpKind
  scenario : String

def runR (cfg : R.Cfg) (evs : List R.Ev) (scenario : String) : Option Run :=
  (R.steps cfg {} evs).map fun st =>
    { log := st.out.reverse.map Sim.Obs.r,
      stuck := (match st.run with | .signalling g _ => !cfg.signalEscapes && (st.ws g).phase.gone | _ => false),
      crashed := st.crashed, ops := fun g => (st.ws g).op, scenario := scenario }

def runI (cfg : I.Cfg) (evs : List I.Ev) (scenario : String) : Option Run :=
  (I.steps cfg {} evs).map fun st =>
    { log := st.out.reverse.map Sim.Obs.i, stuck := st.pendingSend.isSome, crashed := st.crashed,
      ops := fun _ => .call, scenario := scenario }

def run (name : String) : Option Run :=
  match name with
  | "f16" => runR {} f16 "reply-at-timeout"
  | "f16dup" => runR {} f16dup "duplicate-reply"
  | "pptabort" => runR pptAbortCfg pptAbort "ppt-result-unannounced-then-close"
  | "dupinv" => runI {} dupInv "triple-invocation-same-id"
  | _ => none

end Nexus.Client.Witness
