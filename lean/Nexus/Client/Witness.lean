/-
  Client model: the concrete witness histories of the `…_full_fails` theorems (as lists of atomic
  events) and the reconciliation record of the source hashes.  The driver exposes the witnesses
  (`{"q":"witness"}`) so the family can replay the same history against the real client and
  compare.  Core-only.
-/
import Nexus.Client.Sim

namespace Nexus.Client.Witness
open Nexus.Gen Nexus.Client

/-- sha256 of the gofmt-normalised source each modelled function had when the model was last
    reconciled with it.  A differing hash is not an alarm: it widens the family's run. -/
def reconciled : List (String × String) := [
  ("isPPTSchemeValid", "6d5d4cf509766a4b999bc15d11ee57bf3da1b03d88fd3ce32b3d46dc1e88e719"),
  ("unpackPPTPayload", "151be02d56e3230299fd864ec77d51351b67b950d696d5aae8ee9b2546162264"),
  ("unpackE2EEPayload", "147dfeb0a4eb5e097f0bfc6b527d80047941b1bfcc3e108397c5bec04815e6e5"),
  ("NewClient", "82ca38d0960e0a05166b11517c29caf2cea8f91d94fec9a38820f8743aad9d54"),
  ("Subscribe", "8bef8be78bff9017989c44d357a910420fd7385b63d0f893eac1ae2e36ef1c58"),
  ("Unsubscribe", "c7c016873fcea9b2613661d39b3ad5caa1d25274c606916f02d08db9695c6744"),
  ("Publish", "2e091cb8ca9fc498ddaa6d26f551aa33f98bf8e7afa3d4d8ea935db5b4e88438"),
  ("Register", "3f0655031be8fc96f194d3a73494790af429db79af1f42fab178b33c571f80e3"),
  ("Unregister", "87864c9249a49feff9b2cb85b8d4b4eb52a3c0429c25b9ce6fed591a3e0de668"),
  ("Call", "30d09804fdd240f7af84f27163f23fad319ef4fb0e6850d87161392d1c5a746f"),
  ("CallProgressive", "a4af13420de3c1083fd642c99445598d6f18bc4346ce65f91e64fec271482d62"),
  ("Close", "92c2dcfb49bd1c5e86d1904513eb54a05843dbbc5acdea8ba278e3ec3aa182c4"),
  ("SendProgress", "fce9afbfef19dc1907765fe5b5ba2002d3b983eb052d3f23f2339476b0ac3686"),
  ("expectReply", "9d25bdf59951e21a571e0f0a167e1fe5fc40a5e67d203cba31809b555b65bf04"),
  ("waitForReply", "6123b5200dcc0efc37328bc9ff302b08fba7bf6d02cb455e4f34c354afcb18dc"),
  ("waitForReplyWithCancel", "adfaef1da69295f909caff7f573cfc7217e8570835fedba7e0b6c3c11d7fe37e"),
  ("run", "275f8d4606c6c62d02bf35e8ae8cf2f1631091fb933e3116ad67fc8f418a8acf"),
  ("runReceiveFromRouter", "0efc9adef9ad07c535ad6045ddeb3aed03b158ff6c42b694eaeb027e644abd95"),
  ("runHandleEvent", "73a0bef1a1b5822bd8845c002813a3a921f221cc715e30a7121de1211e240cfd"),
  ("cleanupInvHandlersQueue", "cd1d30f4500a98dff7d2812a95ca29d7e452e50d0e42ee13fb046dcc2e3052b3"),
  ("runHandleInvocation", "a8d05af1efa55b5fe997ef42e4421605605bb4b82376a36cb40a4397312adc17"),
  ("runHandleInterrupt", "3eabc72d8c6e3fb7c0c18a587b0e22bd5f45ac6fb933b36e4c99b0848107da76"),
  ("runSignalReply", "cc8f61e832cfd4944e6a99face8c0396bc5f00a4dc83f179bc3ec54eb6bc6e6c"),
  ("prepareCallResultMessage", "ab06529774d809e8ae28e630e2be4b753e7cafbd7f8d5240434ffcf3ca425e4b"),
  ("doneWaiting", "e77d0058ea1f939f85986e857dd8fabe7911949f40e9bc3d84d55b8f529153f4"),
  ("abortSession", "e77b5290542d853fe002b62950101888510b45fe7dc58387b76c46b596516923")]

/-- Modelled functions whose source differs from the reconciled text. -/
def changedFunctions : List String :=
  (Client.funcHashes.filter fun p => !(reconciled.any fun q => q.1 == p.1 && q.2 == p.2)).map (·.1)

def hashesReconciled : Bool := changedFunctions.isEmpty

/-! ### witnesses

  The histories that wedged or crashed the client before fixes 710325f, aee6f97 and c166f26, kept
  as regression witnesses: the theorems of `Nexus.Props.C17` run them through the model as it is
  instantiated from today's source and show the fixed behaviour; under the old facts they fail
  as they used to. -/

/-- (F16) SUBSCRIBE; the response timer fires; the SUBSCRIBED arrives and `run` looks the waiter up
    before the waiter has deleted its entry; the waiter deletes the entry, closes `gone` and returns
    ErrReplyTimeout.  Before the fix `run` stayed in `w <- msg` for ever; now it takes the `gone`
    case, and Close (GOODBYE, the router's GOODBYE) returns. -/
def f16 : List R.Ev := [
  .apiStart 1 .subscribe "t1" false, .apiWait 1,
  .tick 1000, .timeout 1,
  .inject (.subscribed 1 5), .runRecv,
  .finish 1]

def f16Tail : List R.Ev := [
  .giveUp,
  .closeStart, .inject (.goodbye [] "wamp.close.goodbye_and_out"), .runRecv, .closeSeeDone, .closeWorkersDone]

/-- (F16) the same without any timing: the router answers one SUBSCRIBE twice. -/
def f16dup : List R.Ev := [
  .apiStart 1 .subscribe "t1" false, .apiWait 1,
  .inject (.subscribed 1 5), .inject (.subscribed 1 5),
  .runRecv, .deliver, .runRecv,
  .finish 1]

/-- (F41) RESULT with `ppt_scheme` from a dealer that did not announce the feature: Call sends ABORT
    and stops receiving; the loop exits; Close() closes the peer, once. -/
def pptAbort : List R.Ev := [
  .apiStart 1 .call "p1" false, .apiWait 1,
  .inject (.result 1 [(N.OptPPTScheme, .str "x_a")] [] []), .runRecv, .deliver, .finish 1,
  .runSeeRecvDone,
  .closeStart, .closeWorkersDone]

def pptAbortCfg : R.Cfg := { dealerPPT := false }

/-- (F42) three INVOCATIONs with one request id while the handler is still running the first: the
    repeats after the final (non-progressive) message are dropped, the loop is not blocked. -/
def dupInv : List I.Ev := [
  .recvInvocation { req := 1, reg := 9 } true, .innerTake 0,
  .recvInvocation { req := 1, reg := 9 } true,
  .recvInvocation { req := 1, reg := 9 } true]

/-- By design: PROGRESSIVE chunks arriving faster than the handler takes them block the loop in
    `handlerQueue <- msg` (back-pressure) until the handler returns, the invocation's context ends
    or the session stops receiving. -/
def progChunks : List I.Ev :=
  let chunk : I.Inv := { req := 1, reg := 9, details := [(N.OptProgress, .bool true)] }
  [.recvInvocation chunk true, .innerTake 0, .recvInvocation chunk true, .recvInvocation chunk true]

/-- (F43, open) a Call is waiting; Close() runs to completion (GOODBYE handshake) and closes the send
    channel; the Call's context ends and its goroutine takes the ctx.Done branch before it sees
    Done(): CANCEL is sent on the closed channel. -/
def closeRace : List R.Ev := [
  .apiStart 1 .call "p1" false, .apiWait 1,
  .closeStart, .inject (.goodbye [] "wamp.close.goodbye_and_out"), .runRecv, .closeSeeDone, .closeWorkersDone,
  .ctxEnd 1 .canceled, .noticeCtx 1]

structure Run where
  log : List Sim.Obs
  stuck : Bool
  crashed : Option String
  ops : Nat → R.OpKind
  scenario : String

def runR (cfg : R.Cfg) (evs : List R.Ev) (scenario : String) : Option Run :=
  (R.steps cfg {} evs).map fun st =>
    { log := st.out.reverse.map Sim.Obs.r,
      stuck := (match st.run with | .signalling g _ => !cfg.signalEscapes && (st.ws g).phase.gone | _ => false),
      crashed := st.crashed, ops := fun g => (st.ws g).op, scenario := scenario }

def runI (cfg : I.Cfg) (evs : List I.Ev) (scenario : String) : Option Run :=
  (I.steps cfg {} evs).map fun st =>
    { log := st.out.reverse.map Sim.Obs.i, stuck := st.pendingSend.isSome, crashed := st.crashed,
      ops := fun _ => .call, scenario := scenario }

def run (name : String) : Option Run :=
  match name with
  | "f16" => runR {} (f16 ++ f16Tail) "reply-at-timeout"
  | "f16dup" => runR {} (f16dup ++ f16Tail) "duplicate-reply"
  | "pptabort" => runR pptAbortCfg pptAbort "ppt-result-unannounced-then-close"
  | "dupinv" => runI {} dupInv "triple-invocation-same-id"
  | "progchunks" => runI {} progChunks "progressive-chunks-faster-than-handler"
  | "closerace" => runR {} closeRace "cancel-after-close"
  | _ => none

end Nexus.Client.Witness
