/-
  State invariants of the rendezvous model, for every reachable state.  Proof file.
-/
import Nexus.Client.RendezvousLemmas

namespace Nexus.Client.R
open Nexus.Gen Nexus.Client

/-- Correlation invariant: an `awaitingReply` entry points to the waiter that drew that id; a
    reply being signalled was looked up under the id of the waiter it is signalled to. -/
def InvCorr (st : State) : Prop :=
  (∀ id g, st.awaiting id = some g → (st.ws g).req = id ∧ (st.ws g).phase.started = true) ∧
  (∀ g m, st.run = .signalling g m → sigId m = some (st.ws g).req ∧ (st.ws g).phase.started = true)

theorem invCorr_init : InvCorr {} := by
  constructor
  · intro id g h; simp at h
  · intro g m h; simp at h

end Nexus.Client.R

namespace Nexus.Client.R
open Nexus.Gen Nexus.Client

set_option hygiene false in
/-- Case-split the three things the post-processing of a call may have changed (`SameMod`). -/
macro "split_mod" : tactic => `(tactic| (
  all_goals (try (rcases hout with hout | hout))
  all_goals (try (rcases hrd with hrd | hrd))
  all_goals (try (rcases hscm with hscm | hscm))))

set_option hygiene false in
/-- Closing tactic for the per-event goals of an invariant proof (`hh` is the hypothesis
    introduced from the invariant being re-established). -/
macro "inv_close" : tactic => `(tactic| (
  all_goals (try (simp [returnNow, startRequest, fireAndForget, State.nextId] at *))
  all_goals (try (simp only [hws, haw, hrun] at *))
  all_goals (try (replace hh := forget_awaiting_some _ _ _ hh))
  all_goals (try (grind [Phase.started]))
  all_goals (try (split <;> simp_all [Phase.started]))
  all_goals (try simp_all [Phase.started])
  all_goals (try grind [Phase.started])))

set_option hygiene false in
/-- From `h : step cfg st ev = some st'` to one goal per shape of `st'` (written out in terms of
    `st`); leaves `hc : st.crashed = none` and, where they apply, `hidle`, `hph`, `hws`/`haw`/`hrun`
    (the intermediate state agrees with `st`) in the context. -/
macro "analyse_step" : tactic => `(tactic| (
  have hs := step_cases h
  clear h
  obtain ⟨hc, ⟨hscl, h⟩ | h⟩ := hs
  rotate_left
  unfold stepCore at h
  cases ev <;> simp only at h
  case' apiStart g op name prog =>
    obtain ⟨hidle, hcs⟩ := apiStart_cases h
    clear h
    rcases hcs with ⟨r, rfl⟩ | ⟨st1, sc, hcs⟩
    rotate_left
    obtain ⟨hnow, hidg, hdrawn, hws, haw, hinbox, harr, hrcl, hrun, hrd, hdone, hsc, hclose, hcr, hout⟩ := sc
    rcases hcs with ⟨hd1, rfl⟩ | ⟨hd1, hop, rfl⟩ | ⟨hd1, hop, x, rfl⟩
  case' runRecv =>
    obtain ⟨hidle, x, rest, hin, hx⟩ := runRecv_cases h
    clear h
    rcases hx with ⟨hxn, rfl⟩ | ⟨m, hxm, rfl⟩
    rotate_left
    rcases dispatch_cases cfg ((st.pop rest).emit (.recv m)) m with
      ⟨o, hnote, ho⟩ | ⟨g, id, hsig, hg, ho⟩ | ⟨site, sub, pub, d, a, k, hm, hpanic, ho⟩ | ⟨sub, pub, d, a, k, a', k', hm, ho⟩ | ho | ho
    all_goals (try rw [ho])
    all_goals (try (cases o <;> simp [Out.isNote] at hnote))
  case' finish g =>
    split at h
    rotate_left
    · simp at h
    rename_i r hph
    split at h
    focus (simp at h; subst h)
    rotate_left
    simp at h
    subst h
    rcases complete_cases cfg (st.forget cfg (st.ws g).req) g r with ⟨site, hpanic, ho⟩ | ⟨st1, r', sm, hpp, ho⟩
    rotate_left
    obtain ⟨hnow, hidg, hdrawn, hws, haw, hinbox, harr, hrcl, hrun, hrd, hdone, hclose, hcr, hscm, hout⟩ := sm
    all_goals (try rw [ho])
  case' callReturn g =>
    split at h
    rotate_left
    · simp at h
    rename_i r hph
    split at h
    · simp at h
    simp at h
    subst h
    rcases complete_cases cfg st g r with ⟨site, hpanic, ho⟩ | ⟨st1, r', sm, hpp, ho⟩
    rotate_left
    obtain ⟨hnow, hidg, hdrawn, hws, haw, hinbox, harr, hrcl, hrun, hrd, hdone, hclose, hcr, hscm, hout⟩ := sm
    all_goals (try rw [ho])
  all_goals (
    repeat' (split at h)
    all_goals (try (simp at h))
    all_goals (try subst h))))

theorem invCorr_step (cfg : Cfg) (st : State) (ev : Ev) (st' : State)
    (hinv : InvCorr st) (h : step cfg st ev = some st') : InvCorr st' := by
  obtain ⟨ha, hr⟩ := hinv
  analyse_step
  all_goals (constructor <;> intro a b hh <;> inv_close)

/-! ### Done, Close and the shape of a waiter -/

def Ret.cancelOutcome (k : CtxKind) : Ret → Bool
  | .ctx k' => k' == k
  | .timeout => true
  | _ => false

/-- Per-waiter well-formedness: only Calls reach the Call-only phases; once the ctx.Done branch
    was taken (`cancelled`) the waiter can only end with the context's error or ErrReplyTimeout. -/
def Waiter.wf (w : Waiter) : Prop :=
  (w.hasProg = true → w.op = .call) ∧
  (w.cancelled = true → w.op = .call) ∧
  (match w.phase with
   | .idle | .pending | .waiting => w.cancelled = false
   | .progSending _ => w.op = .call ∧ w.hasProg = true ∧ w.cancelled = false
   | .cancelWaiting k => w.op = .call ∧ w.cancelled = true ∧ w.ctx = some k
   | .finishing r => w.cancelled = true → ∃ k, w.ctx = some k ∧ r.cancelOutcome k = true
   | .closing r => w.hasProg = true ∧ (w.cancelled = true → ∃ k, w.ctx = some k ∧ r.cancelOutcome k = true)
   | .returned r => w.cancelled = true → ∃ k, w.ctx = some k ∧ r.cancelOutcome k = true)

def InvState (st : State) : Prop :=
  (st.done = true ↔ st.run = .exited) ∧
  ((st.close = .waitWorkers ∨ st.close = .returned) → st.done = true) ∧
  (st.close = .forced → st.recvDone = true) ∧
  (∀ g, (st.ws g).wf)

theorem invState_init : InvState {} := by
  refine ⟨by simp, by simp, by simp, ?_⟩
  intro g; simp [Waiter.wf]

/-- A result other than a router message is returned unchanged. -/
theorem postProcess_cancelOutcome {cfg : Cfg} {st st1 : State} {w : Waiter} {r r' : Ret} {k : CtxKind}
    (h : postProcess cfg st w r = .ok (st1, r')) (hr : r.cancelOutcome k = true) : r'.cancelOutcome k = true := by
  unfold postProcess at h
  split at h <;> simp [Ret.cancelOutcome] at hr
  all_goals (simp at h; obtain ⟨_, h2⟩ := h; subst h2; simpa [Ret.cancelOutcome] using hr)

set_option hygiene false in
/-- Closing tactic for goals about one waiter `b` after a step. -/
macro "wf_close" : tactic => `(tactic| (
  split_mod
  all_goals (try (simp [returnNow, startRequest, fireAndForget, State.nextId, Waiter.wf, Ret.cancelOutcome] at *))
  all_goals (try (simp only [hws, haw, hrun, hdone, hclose] at *))
  all_goals (try (simp only [hrd] at *))
  all_goals (try (grind [Waiter.wf, Ret.cancelOutcome]))
  all_goals (try (split <;> simp_all [Waiter.wf, Ret.cancelOutcome]))
  all_goals (try simp_all [Waiter.wf, Ret.cancelOutcome])
  all_goals (try grind [Waiter.wf, Ret.cancelOutcome])))

theorem invDone_step (cfg : Cfg) (st : State) (ev : Ev) (st' : State)
    (hd : st.done = true ↔ st.run = .exited)
    (hcl : (st.close = .waitWorkers ∨ st.close = .returned) → st.done = true)
    (hf : st.close = .forced → st.recvDone = true)
    (h : step cfg st ev = some st') :
    (st'.done = true ↔ st'.run = .exited) ∧ ((st'.close = .waitWorkers ∨ st'.close = .returned) → st'.done = true) ∧
    (st'.close = .forced → st'.recvDone = true) := by
  analyse_step
  all_goals wf_close

end Nexus.Client.R
