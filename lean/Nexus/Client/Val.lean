/-
  Client model, part 1: values and messages as the CLIENT sees them.

  Unlike the router model (`Nexus.WVal`) the client's PPT code looks at the Go dynamic type of
  what it is handed, so the value type keeps `[]byte` (`bin`), the in-process
  `*wamp.PassthruPayload` a local peer passes through unserialised (`payload`, possibly a nil
  pointer) and "any other dynamic type" (`other`, e.g. float64 or a struct).

  `Outcome` makes a Go panic an explicit result; it is never totalised away.  Core-only.
-/
namespace Nexus.Client

inductive Val where
  | null
  | bool (b : Bool)
  | int (i : Int)
  | str (s : String)
  | bin (b : List UInt8)
  | list (l : List Val)
  | dict (d : List (String × Val))
  /-- `*wamp.PassthruPayload` handed over by an in-process peer; `isNil` = typed nil pointer. -/
  | payload (isNil : Bool) (args : List Val) (kw : List (String × Val))
  /-- any other Go dynamic type (float64, int32, struct, …), by name -/
  | other (tag : String)
  deriving Repr, Inhabited

abbrev Dict := List (String × Val)

namespace Dict

def get? (d : Dict) (k : String) : Option Val :=
  match d with
  | [] => none
  | (k', v) :: rest => if k' == k then some v else get? rest k

/-- `s, _ := d[k].(string)` -/
def optString (d : Dict) (k : String) : String :=
  match get? d k with
  | some (.str s) => s
  | _ => ""

/-- `b, _ := d[k].(bool)` -/
def optFlag (d : Dict) (k : String) : Bool :=
  match get? d k with
  | some (.bool b) => b
  | _ => false

/-- `wamp.AsInt64(d[k])` restricted to what the model's `int` stands for; 0 when absent/non-numeric. -/
def optInt (d : Dict) (k : String) : Int :=
  match get? d k with
  | some (.int i) => i
  | _ => 0

end Dict

/-- A Go computation that may panic: the panic is an outcome, with the site that raised it. -/
inductive Outcome (α : Type) where
  | ok (a : α)
  | panic (site : String)
  deriving Repr, Inhabited

namespace Outcome

def isPanic {α} : Outcome α → Bool
  | .panic _ => true
  | .ok _ => false

def bind {α β} (o : Outcome α) (f : α → Outcome β) : Outcome β :=
  match o with
  | .ok a => f a
  | .panic s => .panic s

def map {α β} (f : α → β) : Outcome α → Outcome β
  | .ok a => .ok (f a)
  | .panic s => .panic s

@[simp] theorem isPanic_ok {α} (a : α) : (Outcome.ok a).isPanic = false := rfl
@[simp] theorem isPanic_panic {α} (s : String) : (Outcome.panic s : Outcome α).isPanic = true := rfl

end Outcome

/-- Messages the router side sends to a client (all that `wamp.Message` can be, by type). -/
inductive RMsg where
  | event (sub pub : Nat) (details : Dict) (args : List Val) (kw : Dict)
  | invocation (req reg : Nat) (details : Dict) (args : List Val) (kw : Dict)
  | interrupt (req : Nat) (opts : Dict)
  | registered (req reg : Nat)
  | subscribed (req sub : Nat)
  | unsubscribed (req : Nat)
  | unregistered (req : Nat)
  | result (req : Nat) (details : Dict) (args : List Val) (kw : Dict)
  | published (req pub : Nat)
  | error (typ req : Nat) (details : Dict) (err : String) (args : List Val) (kw : Dict)
  | goodbye (details : Dict) (reason : String)
  | abort (details : Dict) (reason : String)
  /-- every other message type (HELLO, WELCOME, CHALLENGE, PUBLISH, CALL, …) by type code -/
  | other (typ : Nat)
  deriving Repr, Inhabited

/-- The Go type name of a message, as it appears in the case clauses of `runReceiveFromRouter`. -/
def RMsg.typeName : RMsg → String
  | .event .. => "Event" | .invocation .. => "Invocation" | .interrupt .. => "Interrupt"
  | .registered .. => "Registered" | .subscribed .. => "Subscribed" | .unsubscribed .. => "Unsubscribed"
  | .unregistered .. => "Unregistered" | .result .. => "Result" | .published .. => "Published"
  | .error .. => "Error" | .goodbye .. => "Goodbye" | .abort .. => "Abort" | .other _ => "?"

/-- The `Request` field of a message that has one. -/
def RMsg.request? : RMsg → Option Nat
  | .invocation r .. => some r | .interrupt r _ => some r | .registered r _ => some r
  | .subscribed r _ => some r | .unsubscribed r => some r | .unregistered r => some r
  | .result r .. => some r | .published r _ => some r | .error _ r .. => some r
  | _ => none

/-- Field access by Go field name, for the numeric fields a reply could be signalled by. -/
def RMsg.field? (m : RMsg) (f : String) : Option Nat :=
  if f == "Request" then m.request? else
  match m, f with
  | .error t .., "Type" => some t
  | .registered _ g, "Registration" => some g
  | .invocation _ g .., "Registration" => some g
  | .subscribed _ s, "Subscription" => some s
  | .event s .., "Subscription" => some s
  | .published _ p, "Publication" => some p
  | .event _ p .., "Publication" => some p
  | _, _ => none

/-- Messages the client sends to the router. -/
inductive CMsg where
  | subscribe (req : Nat) (topic : String)
  | unsubscribe (req sub : Nat)
  | publish (req : Nat) (topic : String) (ack : Bool)
  | register (req : Nat) (proc : String)
  | unregister (req reg : Nat)
  | call (req : Nat) (proc : String) (recvProgress : Bool)
  /-- a CALL of a progressive call (`CallProgressive`): `more` = its `progress` option -/
  | callChunk (req : Nat) (proc : String) (recvProgress more : Bool)
  | cancel (req : Nat) (mode : String)
  | yield (req : Nat) (progress : Bool)
  | error (typ req : Nat) (err : String)
  | goodbye (reason : String)
  | abort (reason : String)
  deriving Repr, Inhabited, DecidableEq

end Nexus.Client
