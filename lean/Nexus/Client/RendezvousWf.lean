/-
  The per-waiter well-formedness invariant of the rendezvous model.  Proof file.
-/
import Nexus.Client.RendezvousInv

namespace Nexus.Client.R
open Nexus.Gen Nexus.Client

set_option maxHeartbeats 2000000 in
theorem invWf_step (cfg : Cfg) (st : State) (ev : Ev) (st' : State)
    (hw : ∀ g, (st.ws g).wf) (h : step cfg st ev = some st') : ∀ g, (st'.ws g).wf := by
  analyse_step
  all_goals (intro b; have hwb := hw b)
  all_goals wf_close
  all_goals (
    intro hcn
    first
    | (obtain ⟨k, hk, hrk⟩ := hwb hcn
       exact ⟨k, hk, by simpa [Ret.cancelOutcome] using
         postProcess_cancelOutcome (k := k) hpp (by simpa [Ret.cancelOutcome] using hrk)⟩)
    | (obtain ⟨k, hk, hrk⟩ := hwb.2 hcn
       exact ⟨k, hk, by simpa [Ret.cancelOutcome] using
         postProcess_cancelOutcome (k := k) hpp (by simpa [Ret.cancelOutcome] using hrk)⟩))

theorem invState_step (cfg : Cfg) (st : State) (ev : Ev) (st' : State)
    (hinv : InvState st) (h : step cfg st ev = some st') : InvState st' := by
  obtain ⟨hd, hcl, hf, hw⟩ := hinv
  obtain ⟨h1, h2, h3⟩ := invDone_step cfg st ev st' hd hcl hf h
  exact ⟨h1, h2, h3, invWf_step cfg st ev st' hw h⟩

end Nexus.Client.R
