/-
  Request ids in the rendezvous model: as long as fewer than 2^53 ids have been drawn from the
  session's IDGen (the regenerated `idGenNext`), no two API calls share a request id.  Proof file.
-/
import Nexus.Client.RendezvousInv

namespace Nexus.Client.R
open Nexus.Gen Nexus.Client

/-- Below the wrap-around `IDGen.Next` just counts. -/
theorem idGenNext_small (s : UInt64) (h : s.toNat < 2 ^ 53) :
    (idGenNext s).1 = (idGenNext s).2 ∧ (idGenNext s).2.toNat = s.toNat + 1 := by
  refine ⟨rfl, ?_⟩
  simp only [idGenNext]
  have h1 : (s + 1).toNat = s.toNat + 1 := by
    rw [UInt64.toNat_add]
    have : (1 : UInt64).toNat = 1 := rfl
    rw [this]
    omega
  have h2 : ¬ (s + 1 > MaxID_u64) := by
    intro hh
    have := UInt64.lt_iff_toNat_lt.mp hh
    have hm : MaxID_u64.toNat = 2 ^ 53 := by decide
    omega
  simp [h2, h1]

def InvIds (st : State) : Prop :=
  st.drawn < 2 ^ 53 →
    st.idgen.toNat = st.drawn ∧
    (∀ g, (st.ws g).req ≤ st.drawn) ∧
    (∀ g, (st.ws g).phase = .idle → (st.ws g).req = 0) ∧
    (∀ g g', (st.ws g).req ≠ 0 → (st.ws g).req = (st.ws g').req → g = g')

theorem invIds_init : InvIds {} := by
  intro _
  refine ⟨rfl, ?_, ?_, ?_⟩ <;> intros <;> simp_all

set_option hygiene false in
macro "ids_close" : tactic => `(tactic| (
  all_goals (try (simp [returnNow, startRequest, fireAndForget, State.nextId] at *))
  all_goals (try (simp only [hws, haw, hrun, hdrawn, hidg] at *))
  all_goals (try (grind))
  all_goals (try simp_all)
  all_goals (try grind)))

theorem drawn_mono (cfg : Cfg) (st : State) (ev : Ev) (st' : State) (h : step cfg st ev = some st') :
    st.drawn ≤ st'.drawn := by
  analyse_step
  all_goals ids_close

theorem invIds_step (cfg : Cfg) (st : State) (ev : Ev) (st' : State)
    (hinv : InvIds st) (h : step cfg st ev = some st') : InvIds st' := by
  intro hb
  have hmono := drawn_mono cfg st ev st' h
  obtain ⟨hi, hle, hz, hu⟩ := hinv (by omega)
  have hnext := idGenNext_small st.idgen (by omega)
  clear hmono
  analyse_step
  all_goals (refine ⟨?_, ?_, ?_, ?_⟩)
  all_goals ids_close

end Nexus.Client.R
