/-
  `CallProgressive` as a whole: the waiter of `Nexus.Client.R` and the sender goroutine of
  `Nexus.Client.P` side by side (product system `RP`).  The two share the request id, the caller's
  context (a `sendProg` that honours it returns its error once it has ended) and the send channel
  (`Close()` closes it for both).  Every interleaving of the two is an event sequence of `RP`.
-/
import Nexus.Client.Progressive
import Nexus.Client.RendezvousAll

namespace Nexus.Client.RP
open Nexus.Gen Nexus.Client

structure Cfg where
  r : R.Cfg := {}
  p : P.Cfg := {}

/-- The sender reads the same `c.cancelMode` as the waiter. -/
def Cfg.pc (cfg : Cfg) : P.Cfg := { cfg.p with cancelMode := cfg.r.cancelMode }

structure State where
  r : R.State := {}
  p : P.State := {}

inductive Ev where
  | r (e : R.Ev)
  | p (e : P.Ev)
  deriving Repr, Inhabited

/-- Which sender events the rest of the client allows. -/
def allowed (st : State) : P.Ev → Bool
  | .spawn g req _ _ =>
    -- after the call's first CALL went out
    (st.r.ws g).op == .call && (st.r.ws g).req == req && !(match (st.r.ws g).phase with | .idle => true | _ => false)
  | .pulled g (.err true) => (st.r.ws g).ctx.isSome     -- `ctx.Err()` needs an ended context
  | .closePeer => false                                  -- only `Close()` closes the peer
  | _ => true

def step (cfg : Cfg) (st : State) (ev : Ev) : Option State :=
  if st.r.crashed.isSome || st.p.crashed.isSome then none else
  match ev with
  | .r e => (R.step cfg.r st.r e).map fun r' => { r := r', p := { st.p with sendClosed := r'.sendClosed } }
  | .p e => if allowed st e then (P.step cfg.pc st.p e).map fun p' => { st with p := p' } else none

def steps (cfg : Cfg) (st : State) : List Ev → Option State
  | [] => some st
  | e :: es => (step cfg st e).bind fun st' => steps cfg st' es

def Reachable (cfg : Cfg) (st : State) : Prop := ∃ evs, steps cfg {} evs = some st

theorem reachable_invariant (cfg : Cfg) (I : State → Prop) (h0 : I {})
    (hs : ∀ st ev st', I st → step cfg st ev = some st' → I st') (st : State) (h : Reachable cfg st) : I st := by
  obtain ⟨evs, h⟩ := h
  suffices ∀ evs s, I s → steps cfg s evs = some st → I st from this evs {} h0 h
  intro evs
  induction evs with
  | nil => intro s hI h; simp [steps] at h; exact h ▸ hI
  | cons e es ih =>
    intro s hI h
    simp only [steps] at h
    cases hst : step cfg s e with
    | none => simp [hst] at h
    | some s' => rw [hst] at h; exact ih s' (hs s e s' hI hst) h

/-- The waiter's side of a run of `RP` is a run of `R`: everything proved for `R` holds for it. -/
theorem r_reachable (cfg : Cfg) (st : State) (h : Reachable cfg st) : R.Reachable cfg.r st.r := by
  refine reachable_invariant cfg (fun st => R.Reachable cfg.r st.r) ⟨[], rfl⟩ ?_ st h
  intro st ev st' hr hs
  unfold step at hs
  split at hs
  · simp at hs
  cases ev with
  | r e =>
    simp only [Option.map_eq_some_iff] at hs
    obtain ⟨r', hr', rfl⟩ := hs
    exact hr.extend [e] (by simp [R.steps, hr'])
  | p e =>
    simp only at hs
    split at hs
    · simp only [Option.map_eq_some_iff] at hs
      obtain ⟨p', _, rfl⟩ := hs
      exact hr
    · simp at hs

/-- A property of the sender system that does not look at `sendClosed` carries over to `RP`. -/
theorem p_invariant (cfg : Cfg) (I : P.State → Prop) (h0 : I {})
    (hs : ∀ st ev st', I st → P.step cfg.pc st ev = some st' → I st')
    (hc : ∀ st b, I st → I { st with sendClosed := b }) (st : State) (h : Reachable cfg st) : I st.p := by
  refine reachable_invariant cfg (fun st => I st.p) h0 ?_ st h
  intro st ev st' hi hst
  unfold step at hst
  split at hst
  · simp at hst
  cases ev with
  | r e =>
    simp only [Option.map_eq_some_iff] at hst
    obtain ⟨r', _, rfl⟩ := hst
    exact hc _ _ hi
  | p e =>
    simp only at hst
    split at hst
    · simp only [Option.map_eq_some_iff] at hst
      obtain ⟨p', hp', rfl⟩ := hst
      exact hs _ _ _ hi hp'
    · simp at hst

theorem sender_shape (cfg : Cfg) (st : State) (h : Reachable cfg st) (g : Nat) : P.Shape cfg.pc st.p g :=
  p_invariant cfg (fun s => P.Shape cfg.pc s g) ⟨0, by simp [P.sendsOf]⟩
    (fun s ev s' hi hs => P.shape_step cfg.pc s ev s' g hi hs) (fun _ _ hi => hi) st h

theorem sender_cancel_mode (cfg : Cfg) (st : State) (h : Reachable cfg st) :
    ∀ q ∈ P.cancelsOf st.p.out, q.2 = cfg.pc.senderCancelMode :=
  p_invariant cfg (fun s => ∀ q ∈ P.cancelsOf s.out, q.2 = cfg.pc.senderCancelMode)
    (by intro q hq; simp [P.cancelsOf] at hq) (P.cancel_mode_step cfg.pc) (fun _ _ hi => hi) st h

/-! ### witnesses -/

/-- A progressive call whose context ends while `sendProg` (which honours it) waits for the next
    chunk: the waiter sends CANCEL and so does the sender — two CANCELs for one request, both with
    the configured mode (before fix 4f8171f the sender's said KillNoWait). -/
def doubleCancel : List Ev :=
  [.r (.apiStart 1 .call "p" false), .p (.spawn 1 1 "p" false), .r (.apiWait 1),
   .r (.ctxEnd 1 .canceled), .r (.noticeCtx 1), .p (.pulled 1 (.err true)), .p (.sendDone 1)]

/-- The call has returned (the callee answered with an ERROR) and the sender goes on sending. -/
def senderOutlivesCall : List Ev :=
  [.r (.apiStart 1 .call "p" false), .p (.spawn 1 1 "p" false), .r (.apiWait 1),
   .r (.inject (.error 48 1 [] "x.failed" [] [])), .r .runRecv, .r .deliver, .r (.finish 1),
   .p (.pulled 1 (.chunk true)), .p (.sendDone 1)]

/-- … and after `Close()` its next send is a send on a closed channel. -/
def senderAfterClose : List Ev :=
  senderOutlivesCall ++
  [.p (.pulled 1 (.chunk true)), .r .closeStart, .r (.inject (.goodbye [] "wamp.close.goodbye_and_out")), .r .runRecv,
   .r .closeSeeDone, .r .closeWorkersDone, .p (.sendDone 1)]

/-- The final chunk of a progressive call whose options leave `progress` unset. -/
def unsetProgress : List Ev :=
  [.r (.apiStart 1 .call "p" false), .p (.spawn 1 1 "p" false), .r (.apiWait 1),
   .p (.pulled 1 (.chunk true)), .p (.sendDone 1), .p (.pulled 1 .noFlag), .p (.sendDone 1)]

end Nexus.Client.RP
