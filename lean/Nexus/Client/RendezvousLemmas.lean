/-
  Invariants of the rendezvous model (`Nexus.Client.R`), proved for every event, hence for every
  interleaving of API goroutines, the receive loop, timers and Close.  Proof file.
-/
import Nexus.Client.Rendezvous

namespace Nexus.Client.R
open Nexus.Gen Nexus.Client

/-! ### frame lemmas for the state-update primitives -/

section frames
variable (st : State) (g : Nat) (w : Waiter) (o : Out) (m : CMsg) (id : Nat) (x : Option Nat)

@[simp] theorem emit_ws : (st.emit o).ws = st.ws := rfl
@[simp] theorem emit_awaiting : (st.emit o).awaiting = st.awaiting := rfl
@[simp] theorem emit_run : (st.emit o).run = st.run := rfl
@[simp] theorem emit_out : (st.emit o).out = o :: st.out := rfl
@[simp] theorem emit_done : (st.emit o).done = st.done := rfl
@[simp] theorem emit_crashed : (st.emit o).crashed = st.crashed := rfl
@[simp] theorem emit_close : (st.emit o).close = st.close := rfl
@[simp] theorem emit_inbox : (st.emit o).inbox = st.inbox := rfl
@[simp] theorem emit_arrived : (st.emit o).arrived = st.arrived := rfl
@[simp] theorem emit_sendClosed : (st.emit o).sendClosed = st.sendClosed := rfl
@[simp] theorem emit_recvDone : (st.emit o).recvDone = st.recvDone := rfl
@[simp] theorem emit_drawn : (st.emit o).drawn = st.drawn := rfl
@[simp] theorem emit_idgen : (st.emit o).idgen = st.idgen := rfl
@[simp] theorem emit_now : (st.emit o).now = st.now := rfl

@[simp] theorem setW_ws : (st.setW g w).ws = fun g' => if g' = g then w else st.ws g' := rfl
@[simp] theorem setW_awaiting : (st.setW g w).awaiting = st.awaiting := rfl
@[simp] theorem setW_run : (st.setW g w).run = st.run := rfl
@[simp] theorem setW_out : (st.setW g w).out = st.out := rfl
@[simp] theorem setW_done : (st.setW g w).done = st.done := rfl
@[simp] theorem setW_crashed : (st.setW g w).crashed = st.crashed := rfl
@[simp] theorem setW_close : (st.setW g w).close = st.close := rfl
@[simp] theorem setW_inbox : (st.setW g w).inbox = st.inbox := rfl
@[simp] theorem setW_arrived : (st.setW g w).arrived = st.arrived := rfl
@[simp] theorem setW_sendClosed : (st.setW g w).sendClosed = st.sendClosed := rfl
@[simp] theorem setW_recvDone : (st.setW g w).recvDone = st.recvDone := rfl
@[simp] theorem setW_drawn : (st.setW g w).drawn = st.drawn := rfl
@[simp] theorem setW_idgen : (st.setW g w).idgen = st.idgen := rfl
@[simp] theorem setW_now : (st.setW g w).now = st.now := rfl

@[simp] theorem setAwait_ws : (st.setAwait id x).ws = st.ws := rfl
@[simp] theorem setAwait_awaiting : (st.setAwait id x).awaiting = fun i => if i = id then x else st.awaiting i := rfl
@[simp] theorem setAwait_run : (st.setAwait id x).run = st.run := rfl
@[simp] theorem setAwait_out : (st.setAwait id x).out = st.out := rfl
@[simp] theorem setAwait_done : (st.setAwait id x).done = st.done := rfl
@[simp] theorem setAwait_crashed : (st.setAwait id x).crashed = st.crashed := rfl
@[simp] theorem setAwait_close : (st.setAwait id x).close = st.close := rfl
@[simp] theorem setAwait_inbox : (st.setAwait id x).inbox = st.inbox := rfl
@[simp] theorem setAwait_arrived : (st.setAwait id x).arrived = st.arrived := rfl
@[simp] theorem setAwait_sendClosed : (st.setAwait id x).sendClosed = st.sendClosed := rfl
@[simp] theorem setAwait_recvDone : (st.setAwait id x).recvDone = st.recvDone := rfl
@[simp] theorem setAwait_drawn : (st.setAwait id x).drawn = st.drawn := rfl
@[simp] theorem setAwait_idgen : (st.setAwait id x).idgen = st.idgen := rfl
@[simp] theorem setAwait_now : (st.setAwait id x).now = st.now := rfl

@[simp] theorem sendR_eq : st.sendR m = st.emit (.send m) := rfl

@[simp] theorem forget_ws (cfg : Cfg) : (st.forget cfg id).ws = st.ws := by unfold State.forget; split <;> rfl
@[simp] theorem forget_run (cfg : Cfg) : (st.forget cfg id).run = st.run := by unfold State.forget; split <;> rfl
@[simp] theorem forget_out (cfg : Cfg) : (st.forget cfg id).out = st.out := by unfold State.forget; split <;> rfl
@[simp] theorem forget_done (cfg : Cfg) : (st.forget cfg id).done = st.done := by unfold State.forget; split <;> rfl
@[simp] theorem forget_crashed (cfg : Cfg) : (st.forget cfg id).crashed = st.crashed := by unfold State.forget; split <;> rfl
@[simp] theorem forget_close (cfg : Cfg) : (st.forget cfg id).close = st.close := by unfold State.forget; split <;> rfl
@[simp] theorem forget_inbox (cfg : Cfg) : (st.forget cfg id).inbox = st.inbox := by unfold State.forget; split <;> rfl
@[simp] theorem forget_arrived (cfg : Cfg) : (st.forget cfg id).arrived = st.arrived := by unfold State.forget; split <;> rfl
@[simp] theorem forget_sendClosed (cfg : Cfg) : (st.forget cfg id).sendClosed = st.sendClosed := by unfold State.forget; split <;> rfl
@[simp] theorem forget_recvDone (cfg : Cfg) : (st.forget cfg id).recvDone = st.recvDone := by unfold State.forget; split <;> rfl
@[simp] theorem forget_drawn (cfg : Cfg) : (st.forget cfg id).drawn = st.drawn := by unfold State.forget; split <;> rfl
@[simp] theorem forget_idgen (cfg : Cfg) : (st.forget cfg id).idgen = st.idgen := by unfold State.forget; split <;> rfl
@[simp] theorem forget_now (cfg : Cfg) : (st.forget cfg id).now = st.now := by unfold State.forget; split <;> rfl
@[simp] theorem forget_eventHandlers (cfg : Cfg) : (st.forget cfg id).eventHandlers = st.eventHandlers := by
  unfold State.forget; split <;> rfl

/-- Forgetting an entry only removes. -/
theorem forget_awaiting_some (cfg : Cfg) {i g' : Nat} (h : (st.forget cfg id).awaiting i = some g') :
    st.awaiting i = some g' := by
  unfold State.forget at h
  split at h
  · simp at h; exact h.2
  · exact h

theorem forget_awaiting_deleted (cfg : Cfg) (hd : cfg.deletesEntry = true) :
    (st.forget cfg id).awaiting id = none := by
  unfold State.forget; simp [hd]

@[simp] theorem runExit_ws : st.runExit.ws = st.ws := rfl
@[simp] theorem runExit_awaiting : st.runExit.awaiting = st.awaiting := rfl
@[simp] theorem runExit_run : st.runExit.run = .exited := rfl
@[simp] theorem runExit_done : st.runExit.done = true := rfl
@[simp] theorem runExit_out : st.runExit.out = .done :: st.out := rfl
@[simp] theorem runExit_crashed : st.runExit.crashed = st.crashed := rfl
@[simp] theorem runExit_close : st.runExit.close = st.close := rfl
@[simp] theorem runExit_sendClosed : st.runExit.sendClosed = st.sendClosed := rfl
@[simp] theorem runExit_drawn : st.runExit.drawn = st.drawn := rfl
@[simp] theorem runExit_idgen : st.runExit.idgen = st.idgen := rfl
@[simp] theorem runExit_recvDone : st.runExit.recvDone = st.recvDone := rfl
@[simp] theorem runExit_inbox : st.runExit.inbox = st.inbox := rfl
@[simp] theorem runExit_arrived : st.runExit.arrived = st.arrived := rfl
@[simp] theorem runExit_now : st.runExit.now = st.now := rfl

end frames

/-- A step is either the crash of a send on the closed channel (nothing else changes) or the
    plain effect of the event. -/
theorem step_cases {cfg : Cfg} {st st' : State} {ev : Ev} (h : step cfg st ev = some st') :
    st.crashed = none ∧
    ((st.sendClosed = true ∧ st' = { st with crashed := some "send on closed channel" }) ∨
     stepCore cfg st ev = some st') := by
  unfold step at h
  split at h
  · simp at h
  · rename_i hc
    refine ⟨by simpa using hc, ?_⟩
    split at h
    · simp at h
    · split at h
      · rename_i hs
        simp at h hs
        exact .inl ⟨hs.1, h.symm⟩
      · simp at h; subst h; exact .inr (by assumption)

/-! ### induction over event sequences -/

theorem steps_append (cfg : Cfg) (st : State) (evs : List Ev) (e : Ev) :
    steps cfg st (evs ++ [e]) = (steps cfg st evs).bind fun st' => step cfg st' e := by
  induction evs generalizing st with
  | nil => simp [steps]
  | cons a as ih =>
    simp only [List.cons_append, steps]
    cases step cfg st a with
    | none => rfl
    | some st1 => simpa using ih st1

theorem steps_concat (cfg : Cfg) (st : State) (a b : List Ev) :
    steps cfg st (a ++ b) = (steps cfg st a).bind fun st' => steps cfg st' b := by
  induction a generalizing st with
  | nil => simp [steps]
  | cons e es ih =>
    simp only [List.cons_append, steps]
    cases step cfg st e with
    | none => rfl
    | some st1 => simpa using ih st1

theorem Reachable.extend {cfg : Cfg} {st st' : State} (hr : Reachable cfg st) (evs : List Ev)
    (h : steps cfg st evs = some st') : Reachable cfg st' := by
  obtain ⟨e0, h0⟩ := hr
  exact ⟨e0 ++ evs, by rw [steps_concat, h0]; simpa using h⟩

/-- An invariant of every step holds in every state reached from a state where it holds. -/
theorem steps_invariant (cfg : Cfg) (P : State → Prop)
    (hstep : ∀ st ev st', P st → step cfg st ev = some st' → P st') :
    ∀ (evs : List Ev) (st st' : State), P st → steps cfg st evs = some st' → P st' := by
  intro evs
  induction evs with
  | nil => intro st st' h hs; simp [steps] at hs; exact hs ▸ h
  | cons e es ih =>
    intro st st' h hs
    simp only [steps] at hs
    cases h1 : step cfg st e with
    | none => simp [h1] at hs
    | some st1 =>
      simp [h1] at hs
      exact ih st1 st' (hstep st e st1 h h1) hs

theorem reachable_invariant (cfg : Cfg) (P : State → Prop) (h0 : P {})
    (hstep : ∀ st ev st', P st → step cfg st ev = some st' → P st') :
    ∀ st, Reachable cfg st → P st := by
  intro st ⟨evs, h⟩
  exact steps_invariant cfg P hstep evs {} st h0 h

end Nexus.Client.R

namespace Nexus.Client.R
open Nexus.Gen Nexus.Client

def Phase.started : Phase → Bool
  | .idle => false
  | _ => true

/-- `b` differs from `a` at most in the handler tables. -/
structure SameCore (a b : State) : Prop where
  now : b.now = a.now
  idgen : b.idgen = a.idgen
  drawn : b.drawn = a.drawn
  ws : b.ws = a.ws
  awaiting : b.awaiting = a.awaiting
  inbox : b.inbox = a.inbox
  arrived : b.arrived = a.arrived
  rclosed : b.rclosed = a.rclosed
  run : b.run = a.run
  recvDone : b.recvDone = a.recvDone
  done : b.done = a.done
  sendClosed : b.sendClosed = a.sendClosed
  close : b.close = a.close
  crashed : b.crashed = a.crashed
  out : b.out = a.out

theorem prepare_ok {st st1 : State} {op : OpKind} {name : String} {x : Nat}
    (h : prepare st op name = .ok (st1, x)) : SameCore st st1 := by
  unfold prepare at h
  split at h
  · split at h
    · simp at h
    · simp at h; obtain ⟨h1, _⟩ := h; subst h1; constructor <;> rfl
  · split at h
    · simp at h
    · simp at h; obtain ⟨h1, _⟩ := h; subst h1; constructor <;> rfl
  · simp at h; obtain ⟨h1, _⟩ := h; subst h1; constructor <;> rfl

/-- The shapes `apiStart` can take. -/
theorem apiStart_cases {st st' : State} {g : Nat} {op : OpKind} {name : String} {prog : Bool}
    (h : apiStart st g op name prog = some st') :
    (st.ws g).phase = .idle ∧
    ((∃ r, st' = returnNow st g op name r) ∨
     ∃ st1, SameCore st st1 ∧
       ((st1.done = true ∧ st' = returnNow st1 g op name .notConn) ∨
        (st1.done = false ∧ op = .publishNoAck ∧ st' = fireAndForget st1 g name) ∨
        (st1.done = false ∧ op ≠ .publishNoAck ∧ ∃ x, st' = startRequest st1 g op name x prog))) := by
  unfold apiStart at h
  split at h
  · refine ⟨by assumption, ?_⟩
    split at h
    · simp at h; exact .inl ⟨_, h.symm⟩
    · rename_i st1 x heq
      refine .inr ⟨st1, prepare_ok heq, ?_⟩
      split at h
      · simp at h; exact .inl ⟨by assumption, h.symm⟩
      · split at h
        · simp at h; rename_i hd hop
          exact .inr (.inl ⟨by simpa using hd, by simpa using hop, h.symm⟩)
        · simp at h; rename_i hd hop
          exact .inr (.inr ⟨by simpa using hd, by simpa using hop, x, h.symm⟩)
  · simp at h


section pop
variable (st : State) (rest : List (Option RMsg))
@[simp] theorem pop_ws : (st.pop rest).ws = st.ws := rfl
@[simp] theorem pop_awaiting : (st.pop rest).awaiting = st.awaiting := rfl
@[simp] theorem pop_run : (st.pop rest).run = st.run := rfl
@[simp] theorem pop_out : (st.pop rest).out = st.out := rfl
@[simp] theorem pop_done : (st.pop rest).done = st.done := rfl
@[simp] theorem pop_crashed : (st.pop rest).crashed = st.crashed := rfl
@[simp] theorem pop_close : (st.pop rest).close = st.close := rfl
@[simp] theorem pop_inbox : (st.pop rest).inbox = rest := rfl
@[simp] theorem pop_arrived : (st.pop rest).arrived = st.arrived := rfl
@[simp] theorem pop_sendClosed : (st.pop rest).sendClosed = st.sendClosed := rfl
@[simp] theorem pop_recvDone : (st.pop rest).recvDone = st.recvDone := rfl
@[simp] theorem pop_drawn : (st.pop rest).drawn = st.drawn := rfl
@[simp] theorem pop_idgen : (st.pop rest).idgen = st.idgen := rfl
@[simp] theorem pop_now : (st.pop rest).now = st.now := rfl
@[simp] theorem pop_eventHandlers : (st.pop rest).eventHandlers = st.eventHandlers := rfl
end pop

/-- Outputs that only note something (no effect, nothing observable by the router). -/
def Out.isNote : Out → Bool
  | .unclaimed _ | .eventDropped _ | .unhandled _ => true
  | _ => false

/-- The shapes `dispatch` can take. -/
theorem dispatch_cases (cfg : Cfg) (st : State) (m : RMsg) :
    (∃ o, o.isNote = true ∧ dispatch cfg st m = st.emit o) ∨
    (∃ g id, sigId m = some id ∧ st.awaiting id = some g ∧ dispatch cfg st m = { st with run := .signalling g m }) ∨
    (∃ site sub pub d a k, m = .event sub pub d a k ∧ eventPpt cfg.ppt cfg.deser d a k = .panic site ∧
        dispatch cfg st m = { st with crashed := some site }) ∨
    (∃ sub pub d a k a' k', m = .event sub pub d a k ∧
        dispatch cfg st m = { st with run := .inEvent }.emit (.eventStart sub pub a' k')) ∨
    dispatch cfg st m = { st with run := .busy m }.emit (.toWorker m) ∨
    dispatch cfg st m = st.runExit := by
  unfold dispatch
  split
  · rename_i f hact
    split
    · exact .inl ⟨_, rfl, rfl⟩
    · rename_i g hg
      refine .inr (.inl ⟨g, ?_⟩)
      cases hf : m.field? f with
      | none => simp [hf] at hg
      | some id =>
        simp [hf] at hg
        exact ⟨id, by simp [sigId, hact, hf], hg, rfl⟩
  · split
    · split
      · split
        · split
          · rename_i hpp
            exact .inr (.inr (.inl ⟨_, _, _, _, _, _, rfl, hpp, rfl⟩))
          · exact .inl ⟨_, rfl, rfl⟩
          · exact .inr (.inr (.inr (.inl ⟨_, _, _, _, _, _, _, rfl, rfl⟩)))
        · exact .inl ⟨_, rfl, rfl⟩
      · exact .inr (.inr (.inr (.inr (.inl rfl))))
    · exact .inr (.inr (.inr (.inr (.inl rfl))))
  · exact .inr (.inr (.inr (.inr (.inr rfl))))
  · exact .inl ⟨_, rfl, rfl⟩

/-- The shapes `runRecv` can take. -/
theorem runRecv_cases {cfg : Cfg} {st st' : State} (h : runRecv cfg st = some st') :
    st.run = .idle ∧ ∃ x rest, st.inbox = x :: rest ∧
      ((x = none ∧ st' = (st.pop rest).runExit) ∨
       ∃ m, x = some m ∧ st' = dispatch cfg ((st.pop rest).emit (.recv m)) m) := by
  unfold runRecv at h
  split at h
  · simp at h; rename_i h1 h2
    exact ⟨h1, _, _, h2, .inl ⟨rfl, h.symm⟩⟩
  · simp at h; rename_i h1 h2
    exact ⟨h1, _, _, h2, .inr ⟨_, rfl, h.symm⟩⟩
  · simp at h

/-- `b` is `a` after the post-processing of an API call: the handler tables may have grown; a
    PPT protocol violation sent ABORT and stopped receiving (before fix aee6f97: closed the send side). -/
structure SameMod (a b : State) : Prop where
  now : b.now = a.now
  idgen : b.idgen = a.idgen
  drawn : b.drawn = a.drawn
  ws : b.ws = a.ws
  awaiting : b.awaiting = a.awaiting
  inbox : b.inbox = a.inbox
  arrived : b.arrived = a.arrived
  rclosed : b.rclosed = a.rclosed
  run : b.run = a.run
  recvDone : b.recvDone = a.recvDone ∨ b.recvDone = true
  done : b.done = a.done
  close : b.close = a.close
  crashed : b.crashed = a.crashed
  sendClosed : b.sendClosed = a.sendClosed ∨ (b.sendClosed = true)
  out : b.out = a.out ∨ b.out = .send (.abort N.ErrProtocolViolation) :: a.out

theorem abortSession_sameMod (cfg : Cfg) (st : State) : SameMod st (abortSession cfg st) := by
  unfold abortSession
  split
  · constructor <;> first | rfl | exact .inl rfl | exact .inr rfl
  · split
    · constructor <;> first | rfl | exact .inl rfl | exact .inr rfl
    · constructor <;> first | rfl | exact .inl rfl | exact .inr rfl

/-- Today's `abortSession` leaves the send side alone. -/
theorem abortSession_sendClosed (cfg : Cfg) (st : State) (h : cfg.abortClosesSend = false) :
    (abortSession cfg st).sendClosed = st.sendClosed := by
  unfold abortSession
  simp [h]
  split <;> rfl

theorem postProcess_ok {cfg : Cfg} {st st1 : State} {w : Waiter} {r r' : Ret}
    (h : postProcess cfg st w r = .ok (st1, r')) : SameMod st st1 := by
  unfold postProcess at h
  split at h
  · simp at h; obtain ⟨h1, _⟩ := h; subst h1; constructor <;> first | rfl | exact .inl rfl
  · simp at h; obtain ⟨h1, _⟩ := h; subst h1; constructor <;> first | rfl | exact .inl rfl
  · split at h
    · simp at h
    · simp at h; obtain ⟨h1, _⟩ := h; subst h1; exact abortSession_sameMod cfg st
    · simp at h; obtain ⟨h1, _⟩ := h; subst h1; constructor <;> first | rfl | exact .inl rfl
    · simp at h; obtain ⟨h1, _⟩ := h; subst h1; constructor <;> first | rfl | exact .inl rfl
  · simp at h; obtain ⟨h1, _⟩ := h; subst h1; constructor <;> first | rfl | exact .inl rfl

/-- Post-processing leaves the send side alone (today's `abortSession`). -/
theorem postProcess_sendClosed {cfg : Cfg} {st st1 : State} {w : Waiter} {r r' : Ret}
    (hc : cfg.abortClosesSend = false) (h : postProcess cfg st w r = .ok (st1, r')) :
    st1.sendClosed = st.sendClosed := by
  unfold postProcess at h
  split at h
  · simp at h; obtain ⟨h1, _⟩ := h; subst h1; rfl
  · simp at h; obtain ⟨h1, _⟩ := h; subst h1; rfl
  · split at h
    · simp at h
    · simp at h; obtain ⟨h1, _⟩ := h; subst h1; exact abortSession_sendClosed cfg st hc
    · simp at h; obtain ⟨h1, _⟩ := h; subst h1; rfl
    · simp at h; obtain ⟨h1, _⟩ := h; subst h1; rfl
  · simp at h; obtain ⟨h1, _⟩ := h; subst h1; rfl

/-- Post-processing can only panic inside `prepareCallResultMessage`. -/
theorem postProcess_panic {cfg : Cfg} {st : State} {w : Waiter} {r : Ret} {site : String}
    (h : postProcess cfg st w r = .panic site) :
    ∃ d a k, prepareCallResult cfg.ppt cfg.deser cfg.dealerPPT d a k = .panic site := by
  unfold postProcess at h
  split at h
  · simp at h
  · simp at h
  · split at h
    · rename_i hp; simp at h; subst h; exact ⟨_, _, _, hp⟩
    · simp at h
    · simp at h
    · simp at h
  · simp at h

/-- The shapes `complete` can take. -/
theorem complete_cases (cfg : Cfg) (st : State) (g : Nat) (r : Ret) :
    (∃ site, postProcess cfg st (st.ws g) r = .panic site ∧ complete cfg st g r = { st with crashed := some site }) ∨
    (∃ st1 r', SameMod st st1 ∧ postProcess cfg st (st.ws g) r = .ok (st1, r') ∧
      complete cfg st g r = (st1.setW g { st.ws g with phase := .returned r' }).emit (.ret g r')) := by
  unfold complete
  simp only
  split
  · rename_i site heq
    exact .inl ⟨site, heq, rfl⟩
  · rename_i st1 r' heq
    exact .inr ⟨st1, r', postProcess_ok heq, heq, rfl⟩

end Nexus.Client.R
