/-
  Client model, part 5: `CallProgressive`'s sender goroutine.

  `CallProgressive` is `Call` plus one goroutine (regenerated skeletons `callSkeleton`,
  `callProgressiveSkeleton`: the same calls in the same order, with `sendProg` in front and one more
  `go`): the API goroutine asks `sendProg` for the first chunk, then does exactly what `Call`
  does (draw the id, `expectReply`, send the CALL, `waitForReplyWithCancel`, close `progChan`, unpack
  the result) — that part is the waiter of `Nexus.Client.R`, with the CALL carrying `progress`.
  If the first chunk says `progress: true`, the SENDER goroutine modelled here is started.  It shares
  nothing with the waiter but the request id, the caller's context (only through `sendProg`) and the
  session's send channel; it watches neither the call's return nor Done (`progSenderSelects = 0`):

      for callInProgress {
        opts, args, kw, err := sendProg(ctx)             -- `pulled`
        if err != nil { Send() <- CANCEL{mode: c.cancelMode}; return }     -- (fix 4f8171f; before: KillNoWait)
        callInProgress, _ = opts[progress].(bool)        -- comma-ok (fix 42310e3; before: bare, unset panicked)
        if prepareCallPayloadMessage(…) != nil { Send() <- CANCEL{mode: c.cancelMode}; return }
        Send() <- CALL{id, progress}                     -- `sendDone`
      }

  Events are the atomic steps of the sender goroutines (one per progressive call `g`), of the
  environment (`sendProg` returning, the router stalling) and `closePeer` (= `Close()` closing the
  send channel).  Go panics are explicit.  Core-only.
-/
import Nexus.Client.Rendezvous

namespace Nexus.Client.P
open Nexus.Gen Nexus.Client

/-- What `sendProg` (application code) handed back. -/
inductive Pull where
  | chunk (more : Bool)      -- options with `progress: more`
  | err (ctx : Bool)         -- an error; `ctx`: because the caller's context ended (`ctx.Err()`)
  | payloadErr               -- a chunk that `prepareCallPayloadMessage` refuses (PPT options)
  | noFlag                   -- options without a Bool `progress` (nil options included)
  deriving Repr, DecidableEq, Inhabited

inductive Phase where
  | idle
  | pulling                  -- inside `sendProg`
  | sendingChunk (more : Bool)
  | sendingCancel
  | exited
  deriving Repr, DecidableEq, Inhabited

structure Sender where
  req : Nat := 0
  name : String := ""
  recvProg : Bool := false
  phase : Phase := .idle
  deriving Repr, Inhabited

inductive Out where
  | send (g : Nat) (m : CMsg)
  deriving Repr, Inhabited

/-- Regenerated: every `wamp.Cancel` literal in the goroutine takes its mode from `c.cancelMode`
    (fix 4f8171f); before the fix both said `wamp.CancelModeKillNoWait`. -/
def genSenderUsesConfigured : Bool :=
  Client.progSenderCancelModes.all (· == "c.cancelMode") && !Client.progSenderCancelModes.isEmpty

/-- Regenerated: `progress` is read from the options with a comma-ok assertion (fix 42310e3). -/
def genProgressCommaOk : Bool := Client.progSenderProgressAssert == "comma-ok"

/-- The sender's sends are bare channel sends and its loop watches only `callInProgress`. -/
def genSenderBare : Bool := Client.progSenderSelects == 0 && Client.progSenderLoopCond == "callInProgress"

structure Cfg where
  cancelMode : String := Client.defaultCancelMode      -- the client's configured mode (`c.cancelMode`)
  usesConfigured : Bool := genSenderUsesConfigured
  progressCommaOk : Bool := genProgressCommaOk
  bare : Bool := genSenderBare

/-- The mode of the CANCELs the sender builds. -/
def Cfg.senderCancelMode (cfg : Cfg) : String :=
  if cfg.usesConfigured then cfg.cancelMode else Client.cancelModeKillNoWait

structure State where
  ss : Nat → Sender := fun _ => {}
  stalled : Bool := false         -- the router is not reading
  sendClosed : Bool := false      -- `sess.Close()` was called
  crashed : Option String := none
  out : List Out := []

def State.setS (st : State) (g : Nat) (x : Sender) : State :=
  { st with ss := fun g' => if g' = g then x else st.ss g' }

inductive Ev where
  | spawn (g req : Nat) (name : String) (recvProg : Bool)
  | pulled (g : Nat) (p : Pull)
  | sendDone (g : Nat)
  | stall (b : Bool)
  | closePeer
  deriving Repr, Inhabited

def noFlagSite : String := "CallProgressive: assert cliOptions[wamp.OptProgress].(bool)"

def step (cfg : Cfg) (st : State) (ev : Ev) : Option State :=
  if st.crashed.isSome then none else
  match ev with
  | .spawn g req name rp =>
    match (st.ss g).phase with
    | .idle => some (st.setS g { req := req, name := name, recvProg := rp, phase := .pulling })
    | _ => none
  | .pulled g p =>
    let x := st.ss g
    match x.phase with
    | .pulling =>
      match p with
      | .chunk more => some (st.setS g { x with phase := .sendingChunk more })
      | .err _ => some (st.setS g { x with phase := .sendingCancel })
      | .payloadErr => some (st.setS g { x with phase := .sendingCancel })
      | .noFlag =>
        -- unset / non-boolean `progress`: the last chunk (comma-ok), or a panic (bare assertion)
        if cfg.progressCommaOk then some (st.setS g { x with phase := .sendingChunk false })
        else some { st with crashed := some noFlagSite }
    | _ => none
  | .sendDone g =>
    let x := st.ss g
    -- a send on a closed channel panics, whether the goroutine arrives at it or was blocked in it
    let go (m : CMsg) (next : Phase) : Option State :=
      if st.sendClosed then some { st with crashed := some "send on closed channel" }
      else if st.stalled then none
      else some ({ st.setS g { x with phase := next } with out := .send g m :: st.out })
    match x.phase with
    | .sendingChunk more => go (.callChunk x.req x.name x.recvProg more) (if more then .pulling else .exited)
    | .sendingCancel => go (.cancel x.req cfg.senderCancelMode) .exited
    | _ => none
  | .stall b => some { st with stalled := b }
  | .closePeer => some { st with sendClosed := true }

def steps (cfg : Cfg) (st : State) : List Ev → Option State
  | [] => some st
  | e :: es => (step cfg st e).bind fun st' => steps cfg st' es

def Reachable (cfg : Cfg) (st : State) : Prop := ∃ evs, steps cfg {} evs = some st

theorem steps_append (cfg : Cfg) (st : State) (a b : List Ev) :
    steps cfg st (a ++ b) = (steps cfg st a).bind fun st' => steps cfg st' b := by
  induction a generalizing st with
  | nil => simp [steps]
  | cons e es ih =>
    simp only [List.cons_append, steps]
    cases step cfg st e with
    | none => simp
    | some s => simpa using ih s

theorem reachable_invariant (cfg : Cfg) (I : State → Prop) (h0 : I {})
    (hs : ∀ st ev st', I st → step cfg st ev = some st' → I st') (st : State) (h : Reachable cfg st) : I st := by
  obtain ⟨evs, h⟩ := h
  suffices ∀ evs s, I s → steps cfg s evs = some st → I st from this evs {} h0 h
  intro evs
  induction evs with
  | nil => intro s hI h; simp [steps] at h; exact h ▸ hI
  | cons e es ih =>
    intro s hI h
    simp only [steps] at h
    cases hst : step cfg s e with
    | none => simp [hst] at h
    | some s' => rw [hst] at h; exact ih s' (hs s e s' hI hst) h

/-! ### what a sender sends -/

/-- The messages sender `g` has sent, oldest first. -/
def sendsOf (g : Nat) : List Out → List CMsg
  | [] => []
  | .send g' m :: rest => if g' = g then sendsOf g rest ++ [m] else sendsOf g rest

def chunk (x : Sender) (more : Bool) : CMsg := .callChunk x.req x.name x.recvProg more

/-- Shape of a sender's output: chunks with `progress: true`, then — once it has exited — one final
    chunk (`progress: false`) or one CANCEL with the hard-coded mode; nothing after that. -/
def Shape (cfg : Cfg) (st : State) (g : Nat) : Prop :=
  let x := st.ss g
  ∃ k, match x.phase with
    | .idle => sendsOf g st.out = []
    | .exited => sendsOf g st.out = List.replicate k (chunk x true) ++ [chunk x false] ∨
                 sendsOf g st.out = List.replicate k (chunk x true) ++ [.cancel x.req cfg.senderCancelMode]
    | _ => sendsOf g st.out = List.replicate k (chunk x true)

@[simp] theorem setS_same (st : State) (g : Nat) (x : Sender) : (st.setS g x).ss g = x := by simp [State.setS]
@[simp] theorem setS_other (st : State) (g g' : Nat) (x : Sender) (h : g' ≠ g) : (st.setS g x).ss g' = st.ss g' := by
  simp [State.setS, h]
@[simp] theorem setS_out (st : State) (g : Nat) (x : Sender) : (st.setS g x).out = st.out := rfl

theorem shape_step (cfg : Cfg) (st : State) (ev : Ev) (st' : State) (g : Nat)
    (hinv : Shape cfg st g) (h : step cfg st ev = some st') : Shape cfg st' g := by
  unfold step at h
  split at h
  · simp at h
  obtain ⟨k, hk⟩ := hinv
  cases ev with
  | spawn g' req name rp =>
    simp only at h
    split at h <;> simp at h
    subst h
    rename_i hph
    by_cases hg : g = g'
    · subst hg
      refine ⟨0, ?_⟩
      simp only [hph] at hk
      simp [hk]
    · exact ⟨k, by simpa [hg] using hk⟩
  | pulled g' p =>
    simp only at h
    split at h
    · rename_i hph
      by_cases hg : g = g'
      · subst hg
        simp only [hph] at hk
        cases p <;> simp at h
        all_goals (try (split at h <;> simp at h))
        all_goals subst h
        all_goals (first | exact ⟨k, by simpa [chunk] using hk⟩ | exact ⟨k, by simpa [hph, chunk] using hk⟩)
      · cases p <;> simp at h
        all_goals (try (split at h <;> simp at h))
        all_goals subst h
        all_goals (first | exact ⟨k, by simpa [hg] using hk⟩ | exact ⟨k, hk⟩)
    · simp at h
  | sendDone g' =>
    simp only at h
    by_cases hcl : st.sendClosed = true
    · split at h <;> simp [hcl] at h <;> subst h <;> exact ⟨k, hk⟩
    by_cases hstl : st.stalled = true
    · split at h <;> simp [hcl, hstl] at h
    by_cases hg : g = g'
    · subst hg
      split at h
      · rename_i more hph
        simp [hcl, hstl] at h
        subst h
        simp only [hph] at hk
        cases more
        · exact ⟨k, by simp [sendsOf, hk, chunk]⟩
        · exact ⟨k + 1, by simp [sendsOf, hk, chunk, List.replicate_succ']⟩
      · rename_i hph
        simp [hcl, hstl] at h
        subst h
        simp only [hph] at hk
        exact ⟨k, by simp [sendsOf, hk, chunk]⟩
      · simp at h
    · have hg' : g' ≠ g := fun e => hg e.symm
      split at h <;> simp [hcl, hstl] at h <;> subst h
      all_goals exact ⟨k, by simpa [hg, hg', sendsOf] using hk⟩
  | stall b => simp at h; subst h; exact ⟨k, hk⟩
  | closePeer => simp at h; subst h; exact ⟨k, hk⟩

theorem shape_reachable (cfg : Cfg) (st : State) (h : Reachable cfg st) (g : Nat) : Shape cfg st g :=
  reachable_invariant cfg (fun st => Shape cfg st g) ⟨0, by simp [sendsOf]⟩
    (fun st ev st' hi hs => shape_step cfg st ev st' g hi hs) st h

/-- Every CANCEL a sender emits carries the hard-coded mode. -/
def cancelsOf : List Out → List (Nat × String)
  | [] => []
  | .send _ (.cancel r mode) :: rest => (r, mode) :: cancelsOf rest
  | _ :: rest => cancelsOf rest

theorem cancel_mode_step (cfg : Cfg) (st : State) (ev : Ev) (st' : State)
    (hinv : ∀ p ∈ cancelsOf st.out, p.2 = cfg.senderCancelMode) (h : step cfg st ev = some st') :
    ∀ p ∈ cancelsOf st'.out, p.2 = cfg.senderCancelMode := by
  unfold step at h
  split at h
  · simp at h
  cases ev <;> simp only at h
  all_goals (repeat' (split at h))
  all_goals (try (simp at h))
  all_goals (try subst h)
  all_goals (try exact hinv)
  all_goals (intro p hp; simp [cancelsOf] at hp)
  all_goals (first | exact hinv p hp | (rcases hp with rfl | hp; rfl; exact hinv p hp))

theorem cancel_mode_reachable (cfg : Cfg) (st : State) (h : Reachable cfg st) :
    ∀ p ∈ cancelsOf st.out, p.2 = cfg.senderCancelMode :=
  reachable_invariant cfg (fun st => ∀ p ∈ cancelsOf st.out, p.2 = cfg.senderCancelMode)
    (by intro p hp; simp [cancelsOf] at hp) (cancel_mode_step cfg) st h

theorem sender_uses_configured_today : ({} : Cfg).usesConfigured = true := by decide
theorem progress_comma_ok_today : ({} : Cfg).progressCommaOk = true := by decide
theorem sender_bare_today : ({} : Cfg).bare = true := by decide

/-- Today the sender's CANCEL carries whatever mode is configured. -/
theorem sender_mode_today (mode : String) : ({ cancelMode := mode } : Cfg).senderCancelMode = mode := by
  have h : genSenderUsesConfigured = true := by decide
  simp [Cfg.senderCancelMode, h]

end Nexus.Client.P
