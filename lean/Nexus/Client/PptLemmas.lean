/-
  Lemmas about the PPT model: with no bare site in the table the functions never panic.
  Proof file.
-/
import Nexus.Client.Sites

namespace Nexus.Client
open Nexus.Gen

@[simp] theorem map_isPanic {α β} (f : α → β) (o : Outcome α) : (o.map f).isPanic = o.isPanic := by
  cases o <;> rfl

section clean
variable {F : PptFacts} (hF : F.clean)
include hF

theorem clean_bare (fn kind expr : String) (h : (fn, kind, expr) ∈ modelSites) : F.bare fn kind expr = false :=
  hF.1 (fn, kind, expr) h

theorem atSite_clean (fn kind expr : String) (e : PptErr) (h : (fn, kind, expr) ∈ modelSites) :
    (atSite F fn kind expr e).isPanic = false := by
  simp [atSite, clean_bare hF fn kind expr h]

theorem nilPayload_clean : (nilPayload F).isPanic = false := by
  simp [nilPayload, hF.2]

theorem nativePayload_clean (args : List Val) : (nativePayload F args).isPanic = false := by
  unfold nativePayload
  cases args with
  | nil => exact atSite_clean hF _ _ _ _ (by simp [modelSites])
  | cons a rest =>
    cases a with
    | payload n x y => cases n <;> simp [nilPayload_clean hF]
    | _ => simp [clean_bare hF "unpackPPTPayload" "assert" "args[0].(*wamp.PassthruPayload)" (by simp [modelSites]),
                 nilPayload_clean hF]

theorem unpackPPT_clean (deser : Deser) (details : Dict) (args : List Val) :
    (unpackPPTPayload F deser details args).isPanic = false := by
  have hname : ∀ s, (if Client.PPTSerializers.contains s then
      (match args with
        | [] => atSite F "unpackPPTPayload" "index" "args[0]" .serialization
        | .bin b :: _ =>
          (match deser s b with
            | .err => Outcome.ok (Except.error PptErr.serialization)
            | .nil => nilPayload F
            | .val a k => .ok (.ok (a, k)))
        | _ :: _ => atSite F "unpackPPTPayload" "assert" "args[0].([]byte)" .serialization)
      else (Outcome.ok (Except.error PptErr.serializerInvalid) : Outcome Unpacked)).isPanic = false := by
    intro s
    split
    · cases args with
      | nil => exact atSite_clean hF _ _ _ _ (by simp [modelSites])
      | cons a rest =>
        cases a with
        | bin b => cases h : deser s b <;> simp [h, nilPayload_clean hF]
        | _ => exact atSite_clean hF _ _ _ _ (by simp [modelSites])
    · rfl
  unfold unpackPPTPayload
  split
  · rfl
  · simp only
    cases details.get? N.OptPPTSerializer with
    | none => exact nativePayload_clean hF _
    | some v =>
      cases v with
      | str s =>
        simp only
        split
        · exact nativePayload_clean hF _
        · exact hname s
      | _ =>
        simp only [clean_bare hF "unpackPPTPayload" "assert" "pptSerializerStr.(string)" (by simp [modelSites])]
        exact hname ""

theorem unpackE2EE_clean (deser : Deser) (details : Dict) (args : List Val) :
    (unpackE2EEPayload F deser details args).isPanic = false := by
  have hname : ∀ s, (if Client.E2eeSerializers.contains s then
      (match args with
        | [] => atSite F "unpackE2EEPayload" "index" "args[0]" .serialization
        | .bin b :: _ =>
          (match deser s b with
            | .err => Outcome.ok (Except.error PptErr.serialization)
            | .nil => .ok (.ok ([], []))
            | .val a k => .ok (.ok (a, k)))
        | _ :: _ => atSite F "unpackE2EEPayload" "assert" "args[0].([]byte)" .serialization)
      else (Outcome.ok (Except.error PptErr.serializerInvalid) : Outcome Unpacked)).isPanic = false := by
    intro s
    split
    · cases args with
      | nil => exact atSite_clean hF _ _ _ _ (by simp [modelSites])
      | cons a rest =>
        cases a with
        | bin b => cases h : deser s b <;> simp [h]
        | _ => exact atSite_clean hF _ _ _ _ (by simp [modelSites])
    · rfl
  unfold unpackE2EEPayload
  split
  · rfl
  · simp only
    cases details.get? N.OptPPTSerializer with
    | none =>
      simp only [clean_bare hF "unpackE2EEPayload" "assert" "details[wamp.OptPPTSerializer].(string)" (by simp [modelSites])]
      exact hname ""
    | some v =>
      cases v with
      | str s => exact hname s
      | _ =>
        simp only [clean_bare hF "unpackE2EEPayload" "assert" "details[wamp.OptPPTSerializer].(string)" (by simp [modelSites])]
        exact hname ""

theorem unpackByScheme_clean (deser : Deser) (scheme : String) (details : Dict) (args : List Val) :
    (unpackByScheme F deser scheme details args).isPanic = false := by
  unfold unpackByScheme
  split
  · exact unpackE2EE_clean hF ..
  · exact unpackPPT_clean hF ..

theorem eventPpt_clean (deser : Deser) (details : Dict) (args : List Val) (kw : Dict) :
    (eventPpt F deser details args kw).isPanic = false := by
  unfold eventPpt
  simp only
  split
  · simp
  · split
    · simp
    · simp [unpackByScheme_clean hF]

theorem invocationPpt_clean (deser : Deser) (details : Dict) (args : List Val) (kw : Dict) :
    (invocationPpt F deser details args kw).isPanic = false := by
  unfold invocationPpt
  simp only
  split
  · simp
  · split
    · simp
    · simp [unpackByScheme_clean hF]

theorem prepareCallResult_clean (deser : Deser) (dealerPPT : Bool) (details : Dict) (args : List Val) (kw : Dict) :
    (prepareCallResult F deser dealerPPT details args kw).isPanic = false := by
  unfold prepareCallResult
  simp only
  split
  · simp
  · split
    · simp
    · split
      · simp
      · simp [unpackByScheme_clean hF]

end clean

/-- The source as it is now has no bare site and checks the pointer. -/
theorem gen_clean : PptFacts.gen.clean := by
  constructor
  · decide
  · decide

end Nexus.Client
