/-
  Lemmas about the PPT model: the exact guard under which today's (unchecked) unpack functions
  do not panic, and totality of the checked variants.  Proof file.
-/
import Nexus.Client.Sites

namespace Nexus.Client
open Nexus.Gen

/-- Exact guard of `unpackPPTPayload`: the inputs on which the unchecked code does not panic. -/
def pptSafe (deser : Deser) (details : Dict) (args : List Val) : Bool :=
  let native : Bool := match args with
    | .payload false _ _ :: _ => true
    | _ => false
  match details.get? N.OptPPTSerializer with
  | none => native
  | some (.str s) =>
    if s == "native" then native
    else if Client.PPTSerializers.contains s then
      match args with
      | .bin b :: _ => (match deser s b with | .nil => false | _ => true)
      | _ => false
    else true
  | some _ => false

/-- Exact guard of `unpackE2EEPayload`. -/
def e2eeSafe (details : Dict) (args : List Val) : Bool :=
  match details.get? N.OptPPTSerializer with
  | some (.str s) =>
    if Client.E2eeSerializers.contains s then
      match args with
      | .bin _ :: _ => true
      | _ => false
    else true
  | _ => false

/-- Guard of the dispatch on the scheme. -/
def schemeSafe (deser : Deser) (scheme : String) (details : Dict) (args : List Val) : Bool :=
  if scheme == Client.WampPPTScheme then e2eeSafe details args else pptSafe deser details args

/-- Guard of the callers: no scheme, an invalid scheme, or a safe unpack. -/
def callerSafe (deser : Deser) (details : Dict) (args : List Val) : Bool :=
  let scheme := details.optString N.OptPPTScheme
  scheme == "" || !isPPTSchemeValid scheme || schemeSafe deser scheme details args

@[simp] theorem bare_false_isPanic (fn kind expr : String) (e : PptErr) :
    (bare false fn kind expr e).isPanic = true := rfl

@[simp] theorem bare_true_isPanic (fn kind expr : String) (e : PptErr) :
    (bare true fn kind expr e).isPanic = false := rfl

theorem nativePayload_panics_iff (args : List Val) :
    (nativePayload false args).isPanic =
      !(match args with | .payload false _ _ :: _ => true | _ => false) := by
  unfold nativePayload
  cases args with
  | nil => simp
  | cons a rest =>
    cases a with
    | payload n x y => cases n <;> simp
    | _ => simp

theorem unpackPPT_panics_iff (deser : Deser) (details : Dict) (args : List Val) :
    (unpackPPTPayload false deser details args).isPanic = !pptSafe deser details args := by
  unfold unpackPPTPayload pptSafe
  cases details.get? N.OptPPTSerializer with
  | none => simp [nativePayload_panics_iff]
  | some v =>
    cases v with
    | str s =>
      by_cases h1 : (s == "native") = true
      · simp [h1, nativePayload_panics_iff]
      · by_cases h2 : s ∈ Client.PPTSerializers
        · simp only [h1, h2, List.contains_iff_mem, if_true, if_false, decide_true, Bool.true_and, Bool.false_eq_true]
          cases args with
          | nil => simp
          | cons a rest =>
            cases a with
            | bin b => cases h : deser s b <;> simp [h]
            | _ => simp
        · simp [h1, h2]
    | _ => simp

theorem unpackE2EE_panics_iff (deser : Deser) (details : Dict) (args : List Val) :
    (unpackE2EEPayload false deser details args).isPanic = !e2eeSafe details args := by
  unfold unpackE2EEPayload e2eeSafe
  cases details.get? N.OptPPTSerializer with
  | none => simp
  | some v =>
    cases v with
    | str s =>
      by_cases h2 : s ∈ Client.E2eeSerializers
      · simp only [h2, List.contains_iff_mem, if_true, decide_true, Bool.true_and]
        cases args with
        | nil => simp
        | cons a rest =>
          cases a with
          | bin b => cases h : deser s b <;> simp [h]
          | _ => simp
      · simp [h2]
    | _ => simp

theorem unpackByScheme_panics_iff (deser : Deser) (scheme : String) (details : Dict) (args : List Val) :
    (unpackByScheme false deser scheme details args).isPanic = !schemeSafe deser scheme details args := by
  unfold unpackByScheme schemeSafe
  split
  · exact unpackE2EE_panics_iff ..
  · exact unpackPPT_panics_iff ..

@[simp] theorem map_isPanic {α β} (f : α → β) (o : Outcome α) : (o.map f).isPanic = o.isPanic := by
  cases o <;> rfl

theorem eventPpt_panics_iff (deser : Deser) (details : Dict) (args : List Val) (kw : Dict) :
    (eventPpt false deser details args kw).isPanic = !callerSafe deser details args := by
  unfold eventPpt callerSafe
  simp only
  by_cases h1 : details.optString N.OptPPTScheme = ""
  · simp [h1]
  · by_cases h2 : isPPTSchemeValid (details.optString N.OptPPTScheme) = true
    · simp [h1, h2, unpackByScheme_panics_iff]
    · simp [h1, h2]

theorem invocationPpt_panics_iff (deser : Deser) (details : Dict) (args : List Val) (kw : Dict) :
    (invocationPpt false deser details args kw).isPanic = !callerSafe deser details args := by
  unfold invocationPpt callerSafe
  simp only
  by_cases h1 : details.optString N.OptPPTScheme = ""
  · simp [h1]
  · by_cases h2 : isPPTSchemeValid (details.optString N.OptPPTScheme) = true
    · simp [h1, h2, unpackByScheme_panics_iff]
    · simp [h1, h2]

theorem prepareCallResult_panics_iff (deser : Deser) (details : Dict) (args : List Val) (kw : Dict) :
    (prepareCallResult false deser true details args kw).isPanic = !callerSafe deser details args := by
  unfold prepareCallResult callerSafe
  simp only
  by_cases h1 : details.optString N.OptPPTScheme = ""
  · simp [h1]
  · by_cases h2 : isPPTSchemeValid (details.optString N.OptPPTScheme) = true
    · simp [h1, h2, unpackByScheme_panics_iff]
    · simp [h1, h2]

theorem prepareCallResult_noPPT (checked : Bool) (deser : Deser) (details : Dict) (args : List Val) (kw : Dict) :
    (prepareCallResult checked deser false details args kw).isPanic = false := by
  unfold prepareCallResult
  simp only
  split <;> simp

/-! ### the checked variants never panic -/

theorem nativePayload_checked (args : List Val) : (nativePayload true args).isPanic = false := by
  unfold nativePayload
  cases args with
  | nil => simp
  | cons a rest =>
    cases a with
    | payload n x y => cases n <;> simp
    | _ => simp

theorem unpackPPT_checked (deser : Deser) (details : Dict) (args : List Val) :
    (unpackPPTPayload true deser details args).isPanic = false := by
  unfold unpackPPTPayload
  cases details.get? N.OptPPTSerializer with
  | none => simp [nativePayload_checked]
  | some v =>
    cases v with
    | str s =>
      by_cases h1 : (s == "native") = true
      · simp [h1, nativePayload_checked]
      · by_cases h2 : s ∈ Client.PPTSerializers
        · simp only [h1, h2, List.contains_iff_mem, if_true, if_false, decide_true, Bool.true_and, Bool.false_eq_true]
          cases args with
          | nil => simp
          | cons a rest =>
            cases a with
            | bin b => cases h : deser s b <;> simp [h]
            | _ => simp
        · simp [h1, h2]
    | _ => simp

theorem unpackE2EE_checked (deser : Deser) (details : Dict) (args : List Val) :
    (unpackE2EEPayload true deser details args).isPanic = false := by
  unfold unpackE2EEPayload
  cases details.get? N.OptPPTSerializer with
  | none => simp
  | some v =>
    cases v with
    | str s =>
      by_cases h2 : s ∈ Client.E2eeSerializers
      · simp only [h2, List.contains_iff_mem, if_true, decide_true, Bool.true_and]
        cases args with
        | nil => simp
        | cons a rest =>
          cases a with
          | bin b => cases h : deser s b <;> simp [h]
          | _ => simp
      · simp [h2]
    | _ => simp

theorem unpackByScheme_checked (deser : Deser) (scheme : String) (details : Dict) (args : List Val) :
    (unpackByScheme true deser scheme details args).isPanic = false := by
  unfold unpackByScheme
  split
  · exact unpackE2EE_checked ..
  · exact unpackPPT_checked ..

theorem eventPpt_checked (deser : Deser) (details : Dict) (args : List Val) (kw : Dict) :
    (eventPpt true deser details args kw).isPanic = false := by
  unfold eventPpt
  simp only
  split
  · simp
  · split
    · simp
    · simp [unpackByScheme_checked]

theorem invocationPpt_checked (deser : Deser) (details : Dict) (args : List Val) (kw : Dict) :
    (invocationPpt true deser details args kw).isPanic = false := by
  unfold invocationPpt
  simp only
  split
  · simp
  · split
    · simp
    · simp [unpackByScheme_checked]

theorem prepareCallResult_checked (deser : Deser) (dealerPPT : Bool) (details : Dict) (args : List Val) (kw : Dict) :
    (prepareCallResult true deser dealerPPT details args kw).isPanic = false := by
  unfold prepareCallResult
  simp only
  split
  · simp
  · split
    · simp
    · split
      · simp
      · simp [unpackByScheme_checked]

end Nexus.Client
