/-
  Client model, part 3 (L3): the reply rendezvous, the receive loop, Done and Close, as a
  transition system whose events are the atomic steps of the goroutines involved:

    * API goroutines  (Subscribe/Unsubscribe/Register/Unregister/Publish/Call): `apiStart`
      (draw the id, `expectReply`, send the request), `apiWait` (enter the select of
      `waitForReply[WithCancel]`), `timeout`, `noticeCtx` (ctx.Done branch: send CANCEL),
      `seeDone`, `finish` (delete the `awaitingReply` entry, store handlers), `callReturn`;
    * the progress goroutine of a Call (`progTake`, `progReturn`);
    * the receive loop `run` (`runRecv` = receive + `runReceiveFromRouter` up to the point
      where it would block, `deliver` = the rendezvous on the waiter's unbuffered channel inside
      `runSignalReply`, `giveUp`, `runSeeRecvDone`, `eventReturn`, `busyEnd`);
    * `Close` (`closeStart`, `closeSeeDone`, `closeForce`, `closeWorkersDone`);
    * the environment (`tick`, `inject`, `injectClose`, `ctxEnd`).

  Every interleaving of these goroutines is a sequence of such events, so a statement proved
  for all event sequences holds for all schedules.  Which message types signal a reply, by
  which field, and whether `runSignalReply` can abandon a reply nobody takes are read from the
  regenerated tables (`Nexus.Gen.Client`).  Invocations and INTERRUPTs are handled by the
  worker model (`Nexus.Client.Invoke`); here `run` is merely `busy` while inside them.

  Go panics are explicit: `crashed := some site`; a crashed client takes no further step.
  Core-only.
-/
import Nexus.Client.Ppt
import Nexus.Gen.Ids

namespace Nexus.Client.R
open Nexus.Gen Nexus.Client

inductive CtxKind where
  | canceled | deadline
  deriving Repr, DecidableEq, Inhabited

inductive OpKind where
  | subscribe | unsubscribe | register | unregister | publish | publishNoAck | call
  deriving Repr, DecidableEq, Inhabited

/-- What `waitForReply[WithCancel]` hands back / what the API call returns. -/
inductive Ret where
  | msg (m : RMsg)            -- the router's reply (err = nil)
  | ok                        -- nothing to wait for (unacknowledged publish)
  | timeout                   -- ErrReplyTimeout
  | notConn                   -- ErrNotConn
  | ctx (k : CtxKind)         -- the context's error
  | notSubscribed | notRegistered
  | pptAbort                  -- RESULT used PPT unannounced: ABORT sent, send side closed
  | pptErr (e : PptErr)
  deriving Repr, Inhabited

inductive Phase where
  | idle                       -- not started
  | pending                    -- id drawn, entry registered, request sent; not yet in the select
  | waiting                    -- in the select, receiving on the reply channel
  | progSending (m : RMsg)     -- Call: blocked on `progChan <- result`
  | cancelWaiting (k : CtxKind) -- Call: CANCEL sent, waiting for ERROR or the timer
  | finishing (r : Ret)        -- left the select for good; entry not yet deleted
  | closing (r : Ret)          -- Call with progress handler: entry deleted, waiting for progDone
  | returned (r : Ret)
  deriving Repr, Inhabited

/-- The waiter has left its select for good: nobody will ever receive on its channel again. -/
def Phase.gone : Phase → Bool
  | .finishing _ | .closing _ | .returned _ => true
  | _ => false

/-- The waiter has deleted its entry (and, in the fixed code, closed its `gone` channel). -/
def Phase.left : Phase → Bool
  | .closing _ | .returned _ => true
  | _ => false

def Phase.receiving : Phase → Bool
  | .waiting | .cancelWaiting _ => true
  | _ => false

structure Waiter where
  op : OpKind := .subscribe
  name : String := ""
  req : Nat := 0
  phase : Phase := .idle
  deadline : Nat := 0
  hasProg : Bool := false          -- Call with a progress handler
  ctx : Option CtxKind := none     -- the caller's context has ended
  cancelled : Bool := false        -- the ctx.Done branch was taken (CANCEL sent)
  progBusy : Bool := false         -- the progress goroutine is inside progcb
  deriving Repr, Inhabited

inductive RunPhase where
  | idle
  | signalling (g : Nat) (m : RMsg)   -- in runSignalReply: channel of waiter g looked up, sending
  | inEvent                            -- inside the application's event handler
  | busy (m : RMsg)                    -- inside runHandleInvocation / runHandleInterrupt
  | exited
  deriving Repr, Inhabited

inductive ClosePhase where
  | no
  | sentGoodbye (deadline : Nat)
  | forced                             -- EndRecv called, waiting for Done
  | waitWorkers                        -- activeInvHandlers.Wait()
  | returned
  deriving Repr, DecidableEq, Inhabited

/-- Observable (and a few ghost) outputs, newest first in `State.out`. -/
inductive Out where
  | send (m : CMsg)                    -- client → router
  | ret (g : Nat) (r : Ret)            -- API call g returned r
  | handed (g : Nat) (m : RMsg)        -- run handed m to waiter g (the rendezvous)
  | progress (g : Nat) (m : RMsg)      -- progress handler of call g invoked with m
  | recv (m : RMsg)                    -- run took m from the transport
  | unclaimed (m : RMsg)               -- reply nobody waits for (logged, dropped)
  | eventStart (sub pub : Nat) (args : List Val) (kw : Dict)
  | eventEnd
  | eventDropped (sub : Nat)
  | unhandled (typ : Nat)
  | toWorker (m : RMsg)                -- INVOCATION / INTERRUPT passed to the worker model
  | done                               -- Done() closed
  | closeReturned
  deriving Repr, Inhabited

/-- Regenerated facts about the waiter's exit path: the `awaitingReply` entry is deleted on every
    exit of the wait functions (in `doneWaiting`, called once at the end of each; or, in the older
    shape, by a `delete` in each wait function). -/
def genDeletesEntry : Bool :=
  (Client.doneWaitingDeletes == 1 && Client.waitForReplyDoneWaitingCalls == 1 &&
    Client.waitForReplyWithCancelDoneWaitingCalls == 1) ||
  (Client.waitForReplyDeletes == 1 && Client.waitForReplyWithCancelDeletes == 1)

/-- … and `runSignalReply` can abandon a reply whose waiter has gone: its select watches the
    waiter's `gone` channel, which `doneWaiting` closes (after the delete) on every exit. -/
def genSignalEscapes : Bool :=
  Client.signalSelect.contains "recv w.gone" && Client.replyWaiterHasGone &&
  Client.doneWaitingClosesGone == 1 && Client.doneWaitingDeleteFirst &&
  Client.waitForReplyDoneWaitingCalls == 1 && Client.waitForReplyWithCancelDoneWaitingCalls == 1

/-- Aborting the session over an unannounced PPT result closes the peer itself (the shape before
    fix aee6f97) instead of `abortSession` = send ABORT, `EndRecv`, leave the close to `Close()`. -/
def genAbortClosesSend : Bool :=
  !(Client.sessCloseCallers == ["Close"] && Client.abortSessionEndsRecv &&
    Client.abortSessionSelect == ["send c.sess.Send()", "recv c.Done()"] &&
    Client.abortSessionCallers == ["Call", "CallProgressive", "runHandleInvocation"])

structure Cfg where
  timeout : Nat := 1000                -- responseTimeout, ms
  cancelMode : String := Client.defaultCancelMode
  signalEscapes : Bool := genSignalEscapes
  deletesEntry : Bool := genDeletesEntry
  abortClosesSend : Bool := genAbortClosesSend
  closeFactor : Nat := Client.closeWaitFactor
  ppt : PptFacts := PptFacts.gen
  dealerPPT : Bool := true
  deser : Deser := fun _ _ => .err

structure State where
  now : Nat := 0
  idgen : UInt64 := 0
  drawn : Nat := 0                      -- ghost: ids drawn so far
  ws : Nat → Waiter := fun _ => {}
  awaiting : Nat → Option Nat := fun _ => none   -- awaitingReply: request id → waiter
  inbox : List (Option RMsg) := []      -- router → client channel; `none` = closed
  arrived : List RMsg := []             -- ghost: every message the router sent, newest first
  rclosed : Bool := false
  run : RunPhase := .idle
  recvDone : Bool := false              -- sess.EndRecv was called
  done : Bool := false                  -- c.ctx cancelled
  sendClosed : Bool := false            -- sess.Close() was called
  eventHandlers : List Nat := []
  topicSub : List (String × Nat) := []
  invHandlers : List Nat := []
  procReg : List (String × Nat) := []
  close : ClosePhase := .no
  crashed : Option String := none
  out : List Out := []

def lookup (l : List (String × Nat)) (k : String) : Option Nat :=
  match l with
  | [] => none
  | (k', v) :: r => if k' == k then some v else lookup r k

def State.setW (st : State) (g : Nat) (w : Waiter) : State :=
  { st with ws := fun g' => if g' = g then w else st.ws g' }

def State.emit (st : State) (o : Out) : State := { st with out := o :: st.out }

/-- `c.sess.Send() <- m`: the scripted router always receives. (A send after `sess.Close()` panics:
    `step` turns a step that sent something while the send side was closed into a crash.) -/
def State.sendR (st : State) (m : CMsg) : State := st.emit (.send m)

/-- `id := c.sess.IDGen.Next()` (regenerated `idGenNext`). -/
def State.nextId (st : State) : State × Nat :=
  let p := idGenNext st.idgen
  ({ st with idgen := p.1, drawn := st.drawn + 1 }, p.2.toNat)

def State.setAwait (st : State) (id : Nat) (g : Option Nat) : State :=
  { st with awaiting := fun i => if i = id then g else st.awaiting i }

/-- `delete(c.awaitingReply, id)` — as far as the wait functions still contain it (regenerated fact). -/
def State.forget (st : State) (cfg : Cfg) (id : Nat) : State :=
  if cfg.deletesEntry then st.setAwait id none else st

/-! ### the receive switch, through the regenerated table -/

inductive Action where
  | signal (field : String)
  | handler (fn : String)
  | exit (goodbye : Bool)
  | unhandled
  deriving Repr, DecidableEq

def actionOf (typeName : String) : Action :=
  match Client.recvSwitch.find? (fun c => c.msgType == typeName) with
  | some c =>
    if c.kind == "signal" then .signal c.arg
    else if c.kind == "handler" then .handler c.arg
    else if c.kind == "exit" then .exit (c.arg == "goodbye")
    else .unhandled
  | none => if Client.recvDefaultExits then .exit false else .unhandled

/-- The id `runSignalReply` is called with for message `m`. -/
def sigId (m : RMsg) : Option Nat :=
  match actionOf m.typeName with
  | .signal f => m.field? f
  | _ => none

def isProgressive (m : RMsg) : Bool :=
  match m with
  | .result _ d _ _ => d.optFlag N.OptProgress
  | _ => false

def isError (m : RMsg) : Bool :=
  match m with
  | .error .. => true
  | _ => false

def typeCode : RMsg → Nat
  | .event .. => 36 | .invocation .. => 68 | .interrupt .. => 69 | .registered .. => 65
  | .subscribed .. => 33 | .unsubscribed .. => 35 | .unregistered .. => 67 | .result .. => 50
  | .published .. => 17 | .error .. => 8 | .goodbye .. => 6 | .abort .. => 3 | .other t => t

/-! ### events -/

inductive Ev where
  -- environment
  | tick (d : Nat)
  | inject (m : RMsg)
  | injectClose
  | apiStart (g : Nat) (op : OpKind) (name : String) (prog : Bool)
  | ctxEnd (g : Nat) (k : CtxKind)
  | progReturn (g : Nat)
  | eventReturn
  | busyEnd
  | closeStart
  | closeWorkersDone
  -- API goroutines
  | apiWait (g : Nat)
  | timeout (g : Nat)
  | noticeCtx (g : Nat)
  | seeDone (g : Nat)
  | progTake (g : Nat)
  | finish (g : Nat)
  | callReturn (g : Nat)
  -- the receive loop
  | runRecv
  | deliver
  | giveUp
  | runSeeRecvDone
  -- Close
  | closeSeeDone
  | closeForce
  deriving Repr, Inhabited

def Ev.isRun : Ev → Bool
  | .runRecv | .deliver | .giveUp | .runSeeRecvDone | .eventReturn | .busyEnd => true
  | _ => false

/-- `run` returns: `defer c.cancel()` closes Done. -/
def State.runExit (st : State) : State :=
  ({ st with run := .exited, done := true }).emit .done

/-- `abortSession`: `select { case c.sess.Send() <- abort: case <-c.Done(): }; c.sess.EndRecv(nil)` —
    the loop then exits at its select and `Close()` closes the peer, once. (Before fix aee6f97:
    send ABORT and `c.sess.Close()` right here.) -/
def abortSession (cfg : Cfg) (st : State) : State :=
  if cfg.abortClosesSend then { st.sendR (.abort N.ErrProtocolViolation) with sendClosed := true }
  else if st.done then { st with recvDone := true }
  else { st.sendR (.abort N.ErrProtocolViolation) with recvDone := true }

/-- What the API call does with what `waitForReply…` returned, before it returns itself: store the
    handler (Subscribe / Register), unpack a PPT result (Call; may panic; on a protocol violation
    sends ABORT and closes the send side). Yields the state and what the call returns. -/
def postProcess (cfg : Cfg) (st : State) (w : Waiter) (r : Ret) : Outcome (State × Ret) :=
  match w.op, r with
  | .subscribe, .msg (.subscribed _ sub) =>
    .ok ({ st with eventHandlers := sub :: st.eventHandlers, topicSub := (w.name, sub) :: st.topicSub }, r)
  | .register, .msg (.registered _ reg) =>
    .ok ({ st with invHandlers := reg :: st.invHandlers, procReg := (w.name, reg) :: st.procReg }, r)
  | .call, .msg (.result q d a k) =>
    match prepareCallResult cfg.ppt cfg.deser cfg.dealerPPT d a k with
    | .panic site => .panic site
    | .ok .abort => .ok (abortSession cfg st, .pptAbort)
    | .ok (.err e) => .ok (st, .pptErr e)
    | .ok (.ok a' k') => .ok (st, .msg (.result q d a' k'))
  | _, _ => .ok (st, r)

/-- The part of the API call after `waitForReply…` (and progDone) returned `r`. -/
def complete (cfg : Cfg) (st : State) (g : Nat) (r : Ret) : State :=
  let w := st.ws g
  match postProcess cfg st w r with
  | .panic site => { st with crashed := some site }
  | .ok (st1, r') => (st1.setW g { w with phase := .returned r' }).emit (.ret g r')

def requestMsg (op : OpKind) (id : Nat) (name : String) (x : Nat) (prog : Bool) : CMsg :=
  match op with
  | .subscribe => .subscribe id name
  | .unsubscribe => .unsubscribe id x
  | .register => .register id name
  | .unregister => .unregister id x
  | .publish => .publish id name true
  | .publishNoAck => .publish id name false
  | .call => .call id name prog

/-- Draw an id, `expectReply`, send the request. -/
def startRequest (st : State) (g : Nat) (op : OpKind) (name : String) (x : Nat) (prog : Bool) : State :=
  let (st, id) := st.nextId
  let w : Waiter := { op := op, name := name, req := id, phase := .pending, hasProg := prog && op == .call }
  let st := (st.setW g w).setAwait id (some g)
  st.sendR (requestMsg op id name x prog)

def returnNow (st : State) (g : Nat) (op : OpKind) (name : String) (r : Ret) : State :=
  (st.setW g { op := op, name := name, phase := .returned r }).emit (.ret g r)

/-- Unsubscribe / Unregister first look the name up and forget the handler (whatever the router
    will answer); the other calls have nothing to prepare. Returns the state and the id to send. -/
def prepare (st : State) (op : OpKind) (name : String) : Except Ret (State × Nat) :=
  match op with
  | .unsubscribe =>
    match lookup st.topicSub name with
    | none => .error .notSubscribed
    | some sub =>
      .ok ({ st with topicSub := st.topicSub.filter (fun p => p.1 != name),
                     eventHandlers := st.eventHandlers.filter (· != sub) }, sub)
  | .unregister =>
    match lookup st.procReg name with
    | none => .error .notRegistered
    | some reg =>
      .ok ({ st with procReg := st.procReg.filter (fun p => p.1 != name),
                     invHandlers := st.invHandlers.filter (· != reg) }, reg)
  | _ => .ok (st, 0)

/-- An unacknowledged Publish: draw an id, send, return. -/
def fireAndForget (st : State) (g : Nat) (name : String) : State :=
  let (st, id) := st.nextId
  returnNow (st.sendR (requestMsg .publishNoAck id name 0 false)) g .publishNoAck name .ok

def apiStart (st : State) (g : Nat) (op : OpKind) (name : String) (prog : Bool) : Option State :=
  match (st.ws g).phase with
  | .idle =>
    match prepare st op name with
    | .error r => some (returnNow st g op name r)
    | .ok (st1, x) =>
      if st1.done then some (returnNow st1 g op name .notConn)
      else if op == .publishNoAck then some (fireAndForget st1 g name)
      else some (startRequest st1 g op name x prog)
  | _ => none

/-- What `runReceiveFromRouter` does with message `m` (already taken from the transport and
    logged), up to the point where it would block. -/
def dispatch (cfg : Cfg) (st : State) (m : RMsg) : State :=
  match actionOf m.typeName with
  | .signal f =>
    match (m.field? f).bind st.awaiting with
    | none => st.emit (.unclaimed m)
    | some g => { st with run := .signalling g m }
  | .handler fn =>
    match m with
    | .event sub pub d a k =>
      if fn == "runHandleEvent" then
        if st.eventHandlers.contains sub then
          match eventPpt cfg.ppt cfg.deser d a k with
          | .panic site => { st with crashed := some site }
          | .ok (.dropped _) => st.emit (.eventDropped sub)
          | .ok (.handle a' k') => { st with run := .inEvent }.emit (.eventStart sub pub a' k')
        else st.emit (.eventDropped sub)
      else { st with run := .busy m }.emit (.toWorker m)
    | _ => { st with run := .busy m }.emit (.toWorker m)
  | .exit _ => st.runExit
  | .unhandled => st.emit (.unhandled (typeCode m))

def State.pop (st : State) (rest : List (Option RMsg)) : State := { st with inbox := rest }

def runRecv (cfg : Cfg) (st : State) : Option State :=
  match st.run, st.inbox with
  | .idle, none :: rest => some (st.pop rest).runExit
  | .idle, some m :: rest => some (dispatch cfg ((st.pop rest).emit (.recv m)) m)
  | _, _ => none

/-- One event, not yet looking at whether the send side is closed. -/
def stepCore (cfg : Cfg) (st : State) (ev : Ev) : Option State :=
  match ev with
  | .tick d => some { st with now := st.now + d }
  | .inject m => if st.rclosed then none else some { st with inbox := st.inbox ++ [some m], arrived := m :: st.arrived }
  | .injectClose => if st.rclosed then none else some { st with inbox := st.inbox ++ [none], rclosed := true }
  | .apiStart g op name prog => apiStart st g op name prog
  | .ctxEnd g k =>
    let w := st.ws g
    if w.op == .call && w.ctx.isNone && !w.phase.left && !(match w.phase with | .idle => true | _ => false) then
      some (st.setW g { w with ctx := some k })
    else none
  | .apiWait g =>
    let w := st.ws g
    match w.phase with
    | .pending => some (st.setW g { w with phase := .waiting, deadline := st.now + cfg.timeout })
    | _ => none
  | .timeout g =>
    let w := st.ws g
    match w.phase with
    | .waiting =>
      if w.op != .call && st.now ≥ w.deadline then some (st.setW g { w with phase := .finishing .timeout }) else none
    | .cancelWaiting _ =>
      if st.now ≥ w.deadline then some (st.setW g { w with phase := .finishing .timeout }) else none
    | _ => none
  | .noticeCtx g =>
    let w := st.ws g
    match w.phase, w.ctx with
    | .waiting, some k =>
      if w.op == .call then
        let st := st.sendR (.cancel w.req cfg.cancelMode)
        some (st.setW g { w with phase := .cancelWaiting k, cancelled := true, deadline := st.now + cfg.timeout })
      else none
    | _, _ => none
  | .seeDone g =>
    let w := st.ws g
    match w.phase with
    | .waiting => if st.done then some (st.setW g { w with phase := .finishing .notConn }) else none
    | _ => none
  | .deliver =>
    match st.run with
    | .signalling g m =>
      let w := st.ws g
      match w.phase with
      | .waiting =>
        let ph := if w.hasProg && isProgressive m then Phase.progSending m else Phase.finishing (.msg m)
        some (({ st with run := .idle }.setW g { w with phase := ph }).emit (.handed g m))
      | .cancelWaiting k =>
        let ph := if isError m then Phase.finishing (.ctx k) else Phase.cancelWaiting k
        some (({ st with run := .idle }.setW g { w with phase := ph }).emit (.handed g m))
      | _ => none
    | _ => none
  | .giveUp =>
    match st.run with
    | .signalling g _ => if cfg.signalEscapes && (st.ws g).phase.left then some { st with run := .idle } else none
    | _ => none
  | .progTake g =>
    let w := st.ws g
    match w.phase with
    | .progSending m =>
      if w.progBusy then none
      else some ((st.setW g { w with phase := .waiting, progBusy := true }).emit (.progress g m))
    | _ => none
  | .progReturn g =>
    let w := st.ws g
    if w.progBusy then some (st.setW g { w with progBusy := false }) else none
  | .finish g =>
    let w := st.ws g
    match w.phase with
    | .finishing r =>
      let st := st.forget cfg w.req
      if w.hasProg then some (st.setW g { w with phase := .closing r }) else some (complete cfg st g r)
    | _ => none
  | .callReturn g =>
    let w := st.ws g
    match w.phase with
    | .closing r => if w.progBusy then none else some (complete cfg st g r)
    | _ => none
  | .runRecv => runRecv cfg st
  | .runSeeRecvDone =>
    match st.run with
    | .idle => if st.recvDone then some st.runExit else none
    | _ => none
  | .eventReturn =>
    match st.run with
    | .inEvent => some ({ st with run := .idle }.emit .eventEnd)
    | _ => none
  | .busyEnd =>
    match st.run with
    | .busy _ => some { st with run := .idle }
    | _ => none
  | .closeStart =>
    match st.close with
    | .no =>
      if st.done then some { st with close := .waitWorkers }
      else
        let st := st.sendR (.goodbye N.CloseRealm)
        some { st with close := .sentGoodbye (st.now + cfg.closeFactor * cfg.timeout) }
    | _ => none
  | .closeSeeDone =>
    match st.close with
    | .sentGoodbye _ => if st.done then some { st with close := .waitWorkers } else none
    | .forced => if st.done then some { st with close := .waitWorkers } else none
    | _ => none
  | .closeForce =>
    match st.close with
    | .sentGoodbye d => if st.now ≥ d then some { st with close := .forced, recvDone := true } else none
    | _ => none
  | .closeWorkersDone =>
    match st.close with
    | .waitWorkers =>
      if st.sendClosed then some { st with crashed := some "close of closed channel" }
      else some ({ st with close := .returned, sendClosed := true }.emit .closeReturned)
    | _ => none

def Out.isSend : Out → Bool
  | .send _ => true
  | _ => false

/-- Did the step from `st` to `st'` hand a message to the transport? -/
def sentSomething (st st' : State) : Bool :=
  (st'.out.take (st'.out.length - st.out.length)).any Out.isSend

/-- One event. A crashed client takes no step; a step that sends after `sess.Close()` closed the
    send channel panics instead ("send on closed channel"). -/
def step (cfg : Cfg) (st : State) (ev : Ev) : Option State :=
  if st.crashed.isSome then none else
  match stepCore cfg st ev with
  | none => none
  | some st' =>
    if st.sendClosed && sentSomething st st' then some { st with crashed := some "send on closed channel" }
    else some st'

def steps (cfg : Cfg) (st : State) : List Ev → Option State
  | [] => some st
  | e :: es => (step cfg st e).bind fun st' => steps cfg st' es

/-- `st` is reachable from the initial state. -/
def Reachable (cfg : Cfg) (st : State) : Prop := ∃ evs, steps cfg {} evs = some st

/-- The receive loop is blocked in `runSignalReply` on a channel nobody will receive from again,
    and has no way out of the select. -/
def RunStuck (cfg : Cfg) (st : State) : Prop :=
  cfg.signalEscapes = false ∧ ∃ g m, st.run = .signalling g m ∧ (st.ws g).phase.gone = true

end Nexus.Client.R
