/-
  Event handlers in the rendezvous model: they run one at a time, in the order the receive loop
  took the EVENTs from the transport, which is the order the router sent them.  Proof file.
-/
import Nexus.Client.RendezvousInv

namespace Nexus.Client.R
open Nexus.Gen Nexus.Client

/-- Is an event handler running, according to the log (newest first)? -/
def evOpen : List Out → Bool
  | [] => false
  | .eventStart .. :: _ => true
  | .eventEnd :: _ => false
  | _ :: rest => evOpen rest

/-- Handler starts and ends alternate. -/
def wellNested : List Out → Bool
  | [] => true
  | .eventStart .. :: rest => wellNested rest && !evOpen rest
  | .eventEnd :: rest => wellNested rest && evOpen rest
  | _ :: rest => wellNested rest

/-- (subscription, publication) of the EVENTs a handler was started for, newest first. -/
def startedEvents : List Out → List (Nat × Nat)
  | [] => []
  | .eventStart s p _ _ :: rest => (s, p) :: startedEvents rest
  | _ :: rest => startedEvents rest

/-- (subscription, publication) of the EVENTs the receive loop took from the transport, newest first. -/
def recvEvents : List Out → List (Nat × Nat)
  | [] => []
  | .recv (.event s p _ _ _) :: rest => (s, p) :: recvEvents rest
  | _ :: rest => recvEvents rest

/-- Everything the receive loop took from the transport, newest first. -/
def recvLog : List Out → List RMsg
  | [] => []
  | .recv m :: rest => m :: recvLog rest
  | _ :: rest => recvLog rest

def RunPhase.isInEvent : RunPhase → Bool
  | .inEvent => true
  | _ => false

def InvEvents (st : State) : Prop :=
  evOpen st.out = st.run.isInEvent ∧ wellNested st.out = true ∧
  (startedEvents st.out).Sublist (recvEvents st.out)

/-- The transport is FIFO: what `run` has taken so far, followed by what is still queued, is what
    the router sent, in order. -/
def InvFifo (st : State) : Prop :=
  (recvLog st.out).reverse ++ st.inbox.filterMap id = st.arrived.reverse

theorem recvEvents_recv_sublist (m : RMsg) (out : List Out) :
    (recvEvents out).Sublist (recvEvents (.recv m :: out)) := by
  cases m <;> simp [recvEvents]

theorem invEvents_init : InvEvents {} := by simp [InvEvents, evOpen, wellNested, startedEvents, recvEvents, RunPhase.isInEvent]
theorem invFifo_init : InvFifo {} := by simp [InvFifo, recvLog]

set_option hygiene false in
macro "ev_close" : tactic => `(tactic| (
  split_mod
  all_goals (try (simp [returnNow, startRequest, fireAndForget, State.nextId, evOpen, wellNested, startedEvents,
    recvEvents, recvLog, RunPhase.isInEvent, InvEvents, InvFifo] at *))
  all_goals (try (simp only [hws, haw, hrun, hout, hinbox, harr] at *))
  all_goals (try (simp [evOpen, wellNested, startedEvents, recvEvents, recvLog, RunPhase.isInEvent] at *))
  all_goals (try (simp_all [evOpen, wellNested, startedEvents, recvEvents, recvLog, RunPhase.isInEvent]))
  all_goals (try grind)))

theorem invEvents_step (cfg : Cfg) (st : State) (ev : Ev) (st' : State)
    (hinv : InvEvents st) (h : step cfg st ev = some st') : InvEvents st' := by
  obtain ⟨he, hn, hsub⟩ := hinv
  analyse_step
  all_goals (refine ⟨?_, ?_, ?_⟩)
  all_goals ev_close
  all_goals (first
    | exact hsub.trans (recvEvents_recv_sublist _ _)
    | (subst hm; simp [startedEvents, recvEvents]; exact hsub))

theorem invFifo_step (cfg : Cfg) (st : State) (ev : Ev) (st' : State)
    (hinv : InvFifo st) (h : step cfg st ev = some st') : InvFifo st' := by
  unfold InvFifo at hinv
  analyse_step
  all_goals ev_close

end Nexus.Client.R
