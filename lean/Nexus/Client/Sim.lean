/-
  Client model, part 5: the timed scheduler used by the driver (`nexus-driver client`).

  It owns no behaviour of its own: it only chooses WHICH atomic event of the two transition
  systems (`R.step`, `I.step`) to apply next, so every run it produces is an event sequence of
  the systems the theorems quantify over.  Stimuli (API calls, router messages, context ends,
  Close) carry absolute virtual times; between stimuli every enabled internal event is applied
  until none is left (quiescence), timers fire in deadline order.  Where the Go runtime is free
  to choose (two things due at the same instant; run vs. a waiter that has just been handed a
  reply) the `Policy` picks; the family runs all policies and accepts any of their outcomes.

  Application code is scripted: event and progress handlers take `eventDelay`/`progDelay` ms,
  an invocation handler (per procedure) returns `res` after `delay` ms, or `onCancel` as soon as
  its context is done when `waitCtx` is set.  Core-only.
-/
import Nexus.Client.Rendezvous
import Nexus.Client.Invoke
import Nexus.Client.Progressive

namespace Nexus.Client.Sim
open Nexus.Gen Nexus.Client

structure Behav where
  delay : Nat := 0
  res : String := ""
  waitCtx : Bool := false
  onCancel : String := N.ErrCanceled
  progress : Nat := 0           -- SendProgress calls the handler makes when it starts
  deriving Repr, Inhabited

inductive UEv where
  | eventReturn
  | progReturn (g : Nat)
  | handlerReturn (w : Nat) (r : I.HRes)
  | pull (g : Nat) (kind : String)     -- the scripted `sendProg` of progressive call g returns
  deriving Repr, Inhabited

structure Policy where
  runFirst : Bool := false      -- prefer the receive loop over API goroutines when both can step
  timersFirst : Bool := true    -- a timer due at the instant of a stimulus fires before it
  wedge : Bool := false         -- … and the goroutine it woke has not run yet when the stimulus lands
  exitFirst : Bool := false     -- a select with Done / ctx.Done ready next to work takes the exit
  swapExits : Bool := false     -- the other tie-breaks: a worker's select with both its context and the client's
                                -- Done ready takes the other of the two; SendProgress with its context ended
                                -- takes ctx.Done; of two timers due at the same instant the later-armed fires first
  apiLast : Bool := false       -- an API goroutine woken by a reply runs only after the receive loop, the
                                -- workers and the application code returning at this instant have run
  deriving Repr, Inhabited

structure Cfg where
  r : R.Cfg := {}
  i : I.Cfg := {}
  p : P.Cfg := {}
  eventDelay : Nat := 0
  progDelay : Nat := 0
  behav : List (String × Behav) := []
  policy : Policy := {}

inductive Obs where
  | r (o : R.Out)
  | i (o : I.Out)
  | p (o : P.Out)
  | crashed (site : String)
  | rejected (what : String)
  deriving Repr, Inhabited

inductive Stim where
  | api (g : Nat) (op : R.OpKind) (name : String) (prog : Bool)
  /-- `CallProgressive` with a scripted `sendProg`: the first chunk at once (`progress: true` iff the
      script is not empty), then one script step per further call: (delay ms, chunk | final | unset | err | ctx);
      `ctx` = wait for the caller's context to end and return its error. -/
  | apiProg (g : Nat) (name : String) (prog : Bool) (script : List (Nat × String))
  | router (m : RMsg)
  | rclose
  | cancel (g : Nat) (k : R.CtxKind)
  | close
  deriving Repr, Inhabited

structure S where
  r : R.State := {}
  i : I.State := {}
  p : P.State := {}
  scripts : List (Nat × List (Nat × String)) := []   -- what is left of each sender's script
  pwait : List Nat := []                             -- senders whose `sendProg` waits for the context
  ctxEnded : List Nat := []                          -- calls whose context has ended (also after they returned)
  spTodo : List (Nat × Nat) := []                    -- handlers that still have SendProgress calls to make
  gs : List Nat := []
  timers : List (Nat × UEv) := []
  waitCtx : List (Nat × String) := []
  wbehav : List (Nat × Behav) := []
  handed : Bool := false
  log : List (Nat × Obs) := []      -- newest first

def S.crashed (s : S) : Bool := s.r.crashed.isSome || s.i.crashed.isSome || s.p.crashed.isSome

def behavOf (cfg : Cfg) (s : S) (reg : Nat) : Behav :=
  match s.r.procReg.find? (fun p => p.2 == reg) with
  | some (name, _) =>
    match cfg.behav.find? (fun p => p.1 == name) with
    | some (_, b) => b
    | none => {}
  | none => {}

/-- Take over the outputs an R step produced; start the scripted application code they call. -/
def harvestR (cfg : Cfg) (s : S) (r' : R.State) : S :=
  let new := r'.out.take (r'.out.length - s.r.out.length)
  let now := r'.now
  let s := { s with r := r', p := { s.p with sendClosed := r'.sendClosed },
                    log := new.map (fun o => (now, Obs.r o)) ++ s.log }
  let s := new.foldr (fun o (s : S) =>
    match o with
    | .eventStart .. => { s with timers := s.timers ++ [(now + cfg.eventDelay, .eventReturn)] }
    | .progress g _ => { s with timers := s.timers ++ [(now + cfg.progDelay, .progReturn g)] }
    | _ => s) s
  match r'.crashed with
  | some site => { s with log := (now, .crashed site) :: s.log }
  | none => s

def harvestI (cfg : Cfg) (s : S) (i' : I.State) : S :=
  let new := i'.out.take (i'.out.length - s.i.out.length)
  let now := i'.now
  -- a worker sending after sess.Close() closed the send channel panics
  if s.r.sendClosed && new.any (fun o => match o with | .send _ => true | _ => false) then
    { s with i := { s.i with crashed := some "send on closed channel" },
             log := (now, .crashed "send on closed channel") :: s.log }
  else
  let s0 := s
  let s := { s with i := i', log := new.map (fun o => (now, Obs.i o)) ++ s.log }
  let s := new.foldr (fun o (s : S) =>
    match o with
    | .created w _ reg => { s with wbehav := (w, behavOf cfg s0 reg) :: s.wbehav }
    | .handlerStart w _ =>
      let b := match s.wbehav.find? (fun p => p.1 == w) with | some (_, b) => b | none => {}
      let s := { s with timers := s.timers ++ [(now + b.delay, UEv.handlerReturn w { err := b.res })] }
      let s := { s with spTodo := if b.progress > 0 then s.spTodo ++ [(w, b.progress)] else s.spTodo }
      if b.waitCtx then { s with waitCtx := (w, b.onCancel) :: s.waitCtx } else s
    | _ => s) s
  match i'.crashed with
  | some site => { s with log := (now, .crashed site) :: s.log }
  | none => s

def rStep (cfg : Cfg) (s : S) (ev : R.Ev) : Option S :=
  (R.step cfg.r s.r ev).map (harvestR cfg s)

def iStep (cfg : Cfg) (s : S) (ev : I.Ev) : Option S :=
  (I.step cfg.i s.i ev).map (harvestI cfg s)

def pStep (cfg : Cfg) (s : S) (ev : P.Ev) : Option S :=
  (P.step { cfg.p with cancelMode := cfg.r.cancelMode } s.p ev).map fun p' =>
    let new := p'.out.take (p'.out.length - s.p.out.length)
    let now := s.r.now
    let s := { s with p := p', log := new.map (fun o => (now, Obs.p o)) ++ s.log }
    match p'.crashed with
    | some site => { s with log := (now, .crashed site) :: s.log }
    | none => s

/-- The sender of call g calls `sendProg` again: take the next step of its script. -/
def startPull (s : S) (g : Nat) : S :=
  let rest := match s.scripts.find? (fun p => p.1 == g) with | some (_, l) => l | none => []
  let others := s.scripts.filter (fun p => p.1 != g)
  match rest with
  | [] => { s with timers := s.timers ++ [(s.r.now, .pull g "final")] }
  | (d, k) :: tl =>
    let s := { s with scripts := (g, tl) :: others }
    if k == "ctx" then { s with pwait := g :: s.pwait }
    else { s with timers := s.timers ++ [(s.r.now + d, .pull g k)] }

/-- One step of a sender goroutine: a send completes (and `sendProg` is called again), or a
    `sendProg` waiting for the context sees it ended. -/
def senderStep (cfg : Cfg) (s : S) : Option S :=
  match s.pwait.find? (fun g => s.ctxEnded.contains g) with
  | some g => (pStep cfg { s with pwait := s.pwait.filter (· != g) } (.pulled g (.err true)))
  | none =>
    s.gs.reverse.findSome? fun g =>
      (pStep cfg s (.sendDone g)).map fun s' =>
        match (s'.p.ss g).phase with
        | .pulling => startPull s' g
        | _ => s'

def firstSome {α β} (xs : List α) (f : α → Option β) : Option β :=
  match xs with
  | [] => none
  | x :: rest => match f x with | some y => some y | none => firstSome rest f

def waiterEvs (cfg : Cfg) (s : S) : List R.Ev :=
  s.gs.reverse.flatMap fun g =>
    if cfg.policy.exitFirst then [.apiWait g, .seeDone g, .noticeCtx g, .progTake g, .finish g, .callReturn g]
    else [.apiWait g, .noticeCtx g, .seeDone g, .progTake g, .finish g, .callReturn g]

def runEvs : List R.Ev := [.runRecv, .deliver, .giveUp, .runSeeRecvDone]

def allWorkersExited (s : S) : Bool :=
  (List.range s.i.n).all fun w => match (s.i.ws w).outer with | .exited _ => true | _ => false

def workerEvs (cfg : Cfg) (s : S) : List I.Ev :=
  (if cfg.policy.exitFirst then [I.Ev.queueSendAbandon, I.Ev.queueSendDone] else [I.Ev.queueSendDone, I.Ev.queueSendAbandon]) ++
  (List.range s.i.n).flatMap fun w =>
    if cfg.policy.exitFirst then
      (if cfg.policy.swapExits then [.innerExit w, .outerCtx w, .outerDone w] else [.innerExit w, .outerDone w, .outerCtx w]) ++
      [.innerTake w, .innerSendRetry w, .outerTake w, .outerAnswer w false]
    else
      [.innerTake w, .innerSendRetry w, .outerTake w] ++
      (if cfg.policy.swapExits then [.outerDone w, .outerCtx w] else [.outerCtx w, .outerDone w]) ++
      [.outerAnswer w false, .innerExit w]

inductive Due where
  | r (e : R.Ev)
  | i (e : I.Ev)
  | u (k : Nat) (e : UEv)      -- k-th scheduled application return
  deriving Inhabited

def fire (cfg : Cfg) (s : S) (d : Due) : S :=
  match d with
  | .r e => (rStep cfg s e).getD s
  | .i e => (iStep cfg s e).getD s
  | .u k e =>
    let s := { s with timers := s.timers.eraseIdx k }
    match e with
    | .eventReturn => (rStep cfg s .eventReturn).getD s
    | .progReturn g => (rStep cfg s (.progReturn g)).getD s
    | .handlerReturn w r =>
      let s := { s with waitCtx := s.waitCtx.filter (fun p => p.1 != w) }
      (iStep cfg s (.handlerReturn w r false)).getD s
    | .pull g kind =>
      let p : P.Pull := if kind == "chunk" then .chunk true else if kind == "err" then .err false
        else if kind == "unset" then .noFlag else .chunk false
      (pStep cfg s (.pulled g p)).getD s

/-- Application code (scripted) whose return is due now. -/
def dueNow (s : S) : Option (Nat × UEv) :=
  ((List.range s.timers.length).zip s.timers).findSome? fun (k, (t, e)) => if t ≤ s.r.now then some (k, e) else none

/-- One internal step, if any is enabled. -/
def internal (cfg : Cfg) (s : S) : Option S :=
  if s.crashed then none else
  -- the glue between the two systems
  let glue : Option S :=
    match s.r.run with
    | .busy m =>
      if !s.handed then
        match m with
        | .invocation req reg d a k =>
          (iStep cfg s (.recvInvocation { req := req, reg := reg, details := d, args := a, kw := k }
            (s.r.invHandlers.contains reg))).map fun s => { s with handed := true }
        | .interrupt req _ => (iStep cfg s (.recvInterrupt req)).map fun s => { s with handed := true }
        | _ => (rStep cfg s .busyEnd)
      else if s.i.pendingSend.isNone then (rStep cfg s .busyEnd).map fun s => { s with handed := false }
      else none
    | _ => none
  match glue with
  | some s => some s
  | none =>
  if s.r.done && !s.i.clientDone then iStep cfg s .clientDone else
  if s.r.recvDone && !s.i.recvDone then iStep cfg s .endRecv else
  -- a handler waiting for its context
  let wc : Option S := firstSome s.waitCtx fun (w, onCancel) =>
    let x := s.i.ws w
    match x.inner with
    | .running _ =>
      if x.ctx.isSome || s.i.clientDone then
        (iStep cfg s (.handlerReturn w { err := onCancel } false)).map fun s =>
          { s with waitCtx := s.waitCtx.filter (fun p => p.1 != w),
                   timers := s.timers.filter (fun t => match t.2 with | .handlerReturn w' _ => w' != w | _ => true) }
      else none
    | _ => none
  match wc with
  | some s => some s
  | none =>
  -- a handler making its SendProgress calls (it makes them when it starts, before anything else)
  let sp : Option S :=
    match s.spTodo with
    | [] => none
    | (w, k) :: rest =>
      let s1 := { s with spTodo := if k ≤ 1 then rest else (w, k - 1) :: rest }
      match iStep cfg s1 (.spCheck w) with
      | none => some s1
      | some s2 =>
        if (s2.i.ws w).spArmed then
          let ev : I.Ev := if (s2.i.ws w).ctx.isSome && (cfg.policy.exitFirst || cfg.policy.swapExits) then .spAbandon w else .spSend w
          some ((iStep cfg s2 ev).getD s2)
        else some s2
  match sp with
  | some s => some s
  | none =>
  let rEvs := if cfg.policy.apiLast then runEvs
    else if cfg.policy.runFirst then runEvs ++ waiterEvs cfg s else waiterEvs cfg s ++ runEvs
  match firstSome (rEvs ++ [.closeSeeDone]) (rStep cfg s) with
  | some s => some s
  | none =>
  match firstSome (workerEvs cfg s) (iStep cfg s) with
  | some s => some s
  | none =>
  match senderStep cfg s with
  | some s => some s
  | none =>
  let late : Option S :=
    if cfg.policy.apiLast then
      match dueNow s with
      | some (k, e) => some (fire cfg s (.u k e))
      | none => firstSome (waiterEvs cfg s) (rStep cfg s)
    else none
  match late with
  | some s => some s
  | none =>
    match s.r.close with
    | .waitWorkers => if allWorkersExited s then rStep cfg s .closeWorkersDone else none
    | _ => none

def quiesce (cfg : Cfg) (s : S) : Nat → S
  | 0 => s
  | fuel + 1 => match internal cfg s with | some s' => quiesce cfg s' fuel | none => s

/-- Everything with a deadline, as (time, event). -/
def dues (s : S) : List (Nat × Due) :=
  let ws := s.gs.reverse.filterMap fun g =>
    let w := s.r.ws g
    match w.phase with
    | .waiting => if w.op != .call then some (w.deadline, Due.r (.timeout g)) else none
    | .cancelWaiting _ => some (w.deadline, Due.r (.timeout g))
    | _ => none
  let inv := (List.range s.i.n).filterMap fun w =>
    let x := s.i.ws w
    match x.deadline, x.ctx with
    | some d, none => some (d, Due.i (.invTimeout w))
    | _, _ => none
  let cl := match s.r.close with
    | .sentGoodbye d => [(d, Due.r .closeForce)]
    | _ => []
  let us := (List.range s.timers.length).zip s.timers |>.map fun (k, (t, e)) => (t, Due.u k e)
  us ++ ws ++ inv ++ cl

def earliest (late : Bool := false) : List (Nat × Due) → Option (Nat × Due)
  | [] => none
  | x :: rest =>
    match earliest late rest with
    | none => some x
    | some y => if y.1 < x.1 || (late && y.1 == x.1) then some y else some x

def tickTo (cfg : Cfg) (s : S) (t : Nat) : S :=
  if t ≤ s.r.now then s else
  let d := t - s.r.now
  let s := match R.step cfg.r s.r (.tick d) with | some r' => { s with r := r' } | none => s
  match I.step cfg.i s.i (.tick d) with | some i' => { s with i := i' } | none => s

def fuel : Nat := 20000

/-- Let time pass up to `t`, firing what is due on the way (`incl`: also what is due at `t`). -/
def advance (cfg : Cfg) (s : S) (t : Nat) (incl : Bool) : Nat → S
  | 0 => s
  | n + 1 =>
    if s.crashed then s else
    match earliest cfg.policy.swapExits (dues s) with
    | some (d, due) =>
      if d < t || (incl && d ≤ t) then
        let s := tickTo cfg s d
        let s := fire cfg s due
        let s := if cfg.policy.wedge && d == t then s else quiesce cfg s fuel
        advance cfg s t incl n
      else tickTo cfg s t
    | none => tickTo cfg s t

def applyStim (cfg : Cfg) (s : S) (st : Stim) : S :=
  let attempt (e : R.Ev) (what : String) (s : S) : S :=
    match rStep cfg s e with
    | some s' => s'
    | none => { s with log := (s.r.now, .rejected what) :: s.log }
  match st with
  | .api g op name prog => attempt (.apiStart g op name prog) "api" { s with gs := g :: s.gs }
  | .apiProg g name prog script =>
    let s := attempt (.apiStart g .call name prog) "api" { s with gs := g :: s.gs }
    match (s.r.ws g).phase with
    | .pending =>
      -- the CALL that went out is the first chunk of a progressive call
      let id := (s.r.ws g).req
      let more := !script.isEmpty
      let s := { s with log := s.log.map fun (t, o) =>
        match o with
        | .r (.send (.call q nm rp)) => if q == id then (t, Obs.r (.send (.callChunk q nm rp more))) else (t, o)
        | _ => (t, o) }
      if more then
        match pStep cfg s (.spawn g id name prog) with
        | some s => startPull { s with scripts := (g, script) :: s.scripts } g
        | none => s
      else s
    | _ => s
  | .router m => attempt (.inject m) "router" s
  | .rclose => attempt .injectClose "rclose" s
  | .cancel g k => (rStep cfg { s with ctxEnded := g :: s.ctxEnded } (.ctxEnd g k)).getD { s with ctxEnded := g :: s.ctxEnded }      -- a context ending after its call returned: nothing happens
  | .close => attempt .closeStart "close" s

/-- Process one stimulus at absolute time `t`. `hold`: another stimulus follows at the same
    instant and the goroutines woken by this one have not run yet when it lands. -/
def stimulus (cfg : Cfg) (s : S) (t : Nat) (st : Stim) (hold : Bool := false) : S :=
  if s.crashed then s else
  let s := advance cfg s t cfg.policy.timersFirst fuel
  if s.crashed then s else
  let s := applyStim cfg s st
  if hold then s else
  let cfgQ := if cfg.policy.wedge then { cfg with policy := { cfg.policy with runFirst := true } } else cfg
  quiesce cfgQ s fuel

def finishAt (cfg : Cfg) (s : S) (t : Nat) : S :=
  if s.crashed then s else advance cfg s t true fuel

/-- Is the receive loop wedged for good (either way)? -/
def stuck (cfg : Cfg) (s : S) : Bool :=
  (match s.r.run with
   | .signalling g _ => !cfg.r.signalEscapes && (s.r.ws g).phase.gone
   | _ => false) || s.i.pendingSend.isSome

end Nexus.Client.Sim
