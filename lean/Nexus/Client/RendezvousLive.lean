/-
  The receive loop of the rendezvous model: when it is blocked for good (`RunStuck`), that this
  is permanent, the exact guard under which it cannot happen, the concrete witnesses, Done and
  Close.  Proof file.
-/
import Nexus.Client.RendezvousWf
import Nexus.Client.PptLemmas
import Nexus.Client.Witness

namespace Nexus.Client.R
open Nexus.Gen Nexus.Client

/-- All state invariants together. -/
structure Inv (cfg : Cfg) (st : State) : Prop where
  corr : InvCorr st
  state : InvState st

theorem inv_init (cfg : Cfg) : Inv cfg {} := ⟨invCorr_init, invState_init⟩

theorem inv_step (cfg : Cfg) (st : State) (ev : Ev) (st' : State) (hi : Inv cfg st)
    (h : step cfg st ev = some st') : Inv cfg st' :=
  ⟨invCorr_step cfg st ev st' hi.corr h, invState_step cfg st ev st' hi.state h⟩

theorem inv_reachable (cfg : Cfg) (st : State) (h : Reachable cfg st) : Inv cfg st :=
  reachable_invariant cfg (Inv cfg) (inv_init cfg) (inv_step cfg) st h

/-! ### stuck is for ever -/

set_option hygiene false in
macro "live_close" : tactic => `(tactic| (
  split_mod
  all_goals (try (simp [returnNow, startRequest, fireAndForget, State.nextId, Phase.gone, Phase.left, Phase.receiving,
    Ev.isRun, Phase.started] at *))
  all_goals (try (simp only [hws, haw, hrun, hout, hdone, hclose, hrd] at *))
  all_goals (try (grind [Phase.gone, Phase.started]))
  all_goals (try (simp_all [Phase.gone, Phase.left, Phase.receiving, Ev.isRun, Phase.started]))
  all_goals (try grind [Phase.gone, Phase.started])))

/-- In a stuck state no event of the receive loop is enabled. -/
theorem stuck_no_run_step (cfg : Cfg) (st : State) (ev : Ev)
    (hs : RunStuck cfg st) (hr : ev.isRun = true) : step cfg st ev = none := by
  obtain ⟨hesc, gs, ms, hrun0, hgone⟩ := hs
  have hcore : stepCore cfg st ev = none := by
    unfold stepCore
    cases ev <;> simp [Ev.isRun] at hr <;> simp only
    case runRecv => simp [runRecv, hrun0]
    case deliver =>
      simp only [hrun0]
      cases hp : (st.ws gs).phase <;> simp [hp, Phase.gone] at hgone ⊢
    case giveUp => simp [hrun0, hesc]
    all_goals simp [hrun0]
  unfold step
  simp [hcore]

/-- Whatever else happens, a stuck loop stays stuck. -/
theorem stuck_stable (cfg : Cfg) (st : State) (ev : Ev) (st' : State)
    (hs : RunStuck cfg st) (h : step cfg st ev = some st') : RunStuck cfg st' := by
  obtain ⟨hesc, gs, ms, hrun0, hgone⟩ := hs
  unfold RunStuck
  analyse_step
  all_goals (refine ⟨hesc, gs, ms, ?_, ?_⟩)
  all_goals live_close

theorem stuck_forever (cfg : Cfg) (st : State) (evs : List Ev) (st' : State)
    (hs : RunStuck cfg st) (h : steps cfg st evs = some st') : RunStuck cfg st' :=
  steps_invariant cfg (RunStuck cfg) (fun a e b ha hab => stuck_stable cfg a e b ha hab) evs st st' hs h

/-! ### the witnesses -/

/-- Executable form of `RunStuck`. -/
def stuckB (cfg : Cfg) (st : State) : Bool :=
  !cfg.signalEscapes && (match st.run with | .signalling g _ => (st.ws g).phase.gone | _ => false)

theorem stuck_of_stuckB (cfg : Cfg) (st : State) (h : stuckB cfg st = true) : RunStuck cfg st := by
  unfold stuckB at h
  simp only [Bool.and_eq_true, Bool.not_eq_true'] at h
  obtain ⟨h1, h2⟩ := h
  split at h2
  · rename_i g m hrun
    exact ⟨h1, g, m, hrun, h2⟩
  · simp at h2

/-- Today's configuration as regenerated from the source. -/
def cfgToday : Cfg := {}

/-- The configuration the source had before fixes 652e15e, 710325f, aee6f97 (regression witness). -/
def cfgOld : Cfg := { signalEscapes := false, abortClosesSend := true, ppt := PptFacts.allBare }

theorem today_escapes : cfgToday.signalEscapes = true := by decide
theorem today_deletes : cfgToday.deletesEntry = true := by decide
theorem today_abort : cfgToday.abortClosesSend = false := by decide
theorem today_ppt : cfgToday.ppt.clean := gen_clean

/-- "Close() has returned and nothing crashed". -/
def closedOK (s : State) : Bool := decide (s.close = .returned) && s.crashed.isNone

theorem exists_of_map {o : Option State} {p : State → Bool} (h : o.map p = some true) :
    ∃ s, o = some s ∧ p s = true := by
  cases o with
  | none => simp at h
  | some s => exact ⟨s, rfl, by simpa using h⟩

/-- The F16 witnesses on today's code: the loop takes the `gone` case and Close() returns … -/
theorem f16_fixed : ((steps cfgToday {} (Witness.f16 ++ Witness.f16Tail)).map closedOK) = some true := by decide
theorem f16dup_fixed : ((steps cfgToday {} (Witness.f16dup ++ Witness.f16Tail)).map closedOK) = some true := by decide
/-- … whereas with the select of before the fix they leave the loop stuck. -/
theorem f16_old_stuck : ((steps cfgOld {} Witness.f16).map (stuckB cfgOld)) = some true := by decide
theorem f16dup_old_stuck : ((steps cfgOld {} Witness.f16dup).map (stuckB cfgOld)) = some true := by decide

/-- The F41 witness on today's code: ABORT, EndRecv, the loop exits, Close() closes the peer once. -/
theorem pptAbort_fixed : ((steps Witness.pptAbortCfg {} Witness.pptAbort).map closedOK) = some true := by decide
/-- Before the fix, Close() (here: its GOODBYE) ran into the closed channel. -/
theorem pptAbort_old_crashes :
    ((steps { Witness.pptAbortCfg with abortClosesSend := true } {}
      [.apiStart 1 .call "p1" false, .apiWait 1, .inject (.result 1 [(N.OptPPTScheme, .str "x_a")] [] []),
       .runRecv, .deliver, .finish 1, .closeStart]).map (·.crashed)) = some (some "send on closed channel") := by
  decide

/-- The open finding F43: CANCEL sent after Close() closed the send channel. -/
theorem closeRace_crashes :
    ((steps cfgToday {} Witness.closeRace).map (·.crashed)) = some (some "send on closed channel") := by decide

/-- A stuck loop never exits, so Done is never signalled and Close never returns. -/
theorem stuck_close_never_returns (cfg : Cfg) (st : State) (hreach : Reachable cfg st) (hs : RunStuck cfg st)
    (evs : List Ev) (st' : State) (h : steps cfg st evs = some st') :
    st'.done = false ∧ st'.close ≠ .returned := by
  have hs' := stuck_forever cfg st evs st' hs h
  have hinv := inv_reachable cfg st' (hreach.extend evs h)
  obtain ⟨_, g, m, hrun, _⟩ := hs'
  obtain ⟨hd, hcl, _, _⟩ := hinv.state
  have hnd : st'.done = false := by
    cases hdn : st'.done with
    | false => rfl
    | true => have := hd.mp hdn; rw [hrun] at this; cases this
  refine ⟨hnd, ?_⟩
  intro hc
  have := hcl (.inr hc)
  rw [hnd] at this
  cases this

/-! ### the exact guard -/

/-- The two ways the loop can get stuck: the response timer of waiter `g` fires while the loop is
    already sending to `g`; or the loop takes a reply whose waiter has left its select for good
    but has not deleted its entry yet. -/
def racy (st : State) (ev : Ev) : Bool :=
  match ev with
  | .timeout g => (match st.run with | .signalling g' _ => g' == g | _ => false)
  | .runRecv =>
    (match st.run, st.inbox with
     | .idle, some m :: _ =>
       (match (sigId m).bind st.awaiting with
        | some g => (st.ws g).phase.gone
        | none => false)
     | _, _ => false)
  | _ => false

/-- Event sequences without a racy step. -/
def stepsGuarded (cfg : Cfg) (st : State) : List Ev → Option State
  | [] => some st
  | e :: es => if racy st e then none else (step cfg st e).bind fun st' => stepsGuarded cfg st' es

theorem stepsGuarded_steps (cfg : Cfg) (evs : List Ev) (st st' : State)
    (h : stepsGuarded cfg st evs = some st') : steps cfg st evs = some st' := by
  induction evs generalizing st with
  | nil => simpa [stepsGuarded, steps] using h
  | cons e es ih =>
    simp only [stepsGuarded] at h
    split at h
    · simp at h
    · simp only [steps]
      cases hs : step cfg st e with
      | none => simp [hs] at h
      | some st1 => simp [hs] at h ⊢; exact ih st1 h

/-- The loop is not sending to a waiter that has gone. -/
def NotSendingToGone (st : State) : Prop :=
  ∀ g m, st.run = .signalling g m → (st.ws g).phase.gone = false

theorem notSendingToGone_step (cfg : Cfg) (st : State) (ev : Ev) (st' : State)
    (hi : Inv cfg st) (hg : NotSendingToGone st) (hr : racy st ev = false)
    (h : step cfg st ev = some st') : NotSendingToGone st' := by
  obtain ⟨hd, _, _, _⟩ := hi.state
  have hcorr := hi.corr.2
  unfold racy at hr
  unfold NotSendingToGone at hg ⊢
  analyse_step
  all_goals (intro a b hh)
  all_goals live_close

/-- Partial form of "the receive loop never gets stuck": along every event sequence without a racy
    step the loop is never blocked for good. -/
theorem never_stuck_guarded (cfg : Cfg) (evs : List Ev) (st : State)
    (h : stepsGuarded cfg {} evs = some st) : ¬ RunStuck cfg st := by
  have key : ∀ (evs : List Ev) (a b : State), Reachable cfg a → NotSendingToGone a →
      stepsGuarded cfg a evs = some b → NotSendingToGone b := by
    intro evs
    induction evs with
    | nil => intro a b _ hg h; simp [stepsGuarded] at h; exact h ▸ hg
    | cons e es ih =>
      intro a b hra hg h
      simp only [stepsGuarded] at h
      split at h
      · simp at h
      · rename_i hr
        cases hs : step cfg a e with
        | none => simp [hs] at h
        | some a1 =>
          simp [hs] at h
          have hra1 : Reachable cfg a1 := hra.extend [e] (by simp [steps, hs])
          exact ih a1 b hra1
            (notSendingToGone_step cfg a e a1 (inv_reachable cfg a hra) hg (by simpa using hr) hs) h
  have hg := key evs {} st ⟨[], rfl⟩ (by intro g m h; simp at h) h
  rintro ⟨_, g, m, hrun, hgone⟩
  have := hg g m hrun
  rw [hgone] at this
  cases this

/-! ### Done -/

def isDoneOut : Out → Bool
  | .done => true
  | _ => false

/-- Done() is closed exactly once, when the loop exits. -/
def InvDoneOnce (st : State) : Prop :=
  List.countP isDoneOut st.out = if st.done then 1 else 0

theorem invDoneOnce_init : InvDoneOnce {} := by simp [InvDoneOnce]

theorem invDoneOnce_step (cfg : Cfg) (st : State) (ev : Ev) (st' : State)
    (hd : st.done = true ↔ st.run = .exited) (hinv : InvDoneOnce st) (h : step cfg st ev = some st') :
    InvDoneOnce st' := by
  unfold InvDoneOnce at hinv ⊢
  analyse_step
  split_mod
  all_goals (try (simp [returnNow, startRequest, fireAndForget, State.nextId, isDoneOut, List.countP_cons] at *))
  all_goals (try (simp only [hws, haw, hrun, hout, hdone] at *))
  all_goals (try (simp_all [isDoneOut, List.countP_cons]))
  all_goals (try grind)

/-- What ends the session from the router side: the transport closing, or a message whose case in
    `runReceiveFromRouter` returns true (GOODBYE, ABORT — regenerated table). -/
def endsSession : Option RMsg → Bool
  | none => true
  | some m => (match actionOf m.typeName with | .exit _ => true | _ => false)

theorem take_new2 {α} (l : List α) (a b : α) : List.take (l.length + 1 + 1 - l.length) (a :: b :: l) = [a, b] := by
  have : l.length + 1 + 1 - l.length = 2 := by omega
  rw [this]; rfl

theorem take_new1 {α} (l : List α) (a : α) : List.take (l.length + 1 - l.length) (a :: l) = [a] := by
  have : l.length + 1 - l.length = 1 := by omega
  rw [this]; rfl

/-- When the loop takes such an item it exits and Done() is closed. -/
theorem session_end_signals_done (cfg : Cfg) (st : State) (x : Option RMsg) (rest : List (Option RMsg))
    (hc : st.crashed = none) (hrun : st.run = .idle) (hin : st.inbox = x :: rest) (hx : endsSession x = true) :
    ∃ st', step cfg st .runRecv = some st' ∧ st'.done = true ∧ st'.run = .exited := by
  have hcore : ∃ st', stepCore cfg st .runRecv = some st' ∧ st'.done = true ∧ st'.run = .exited ∧
      sentSomething st st' = false := by
    simp only [stepCore, runRecv, hrun, hin]
    cases x with
    | none => exact ⟨_, rfl, rfl, rfl, by simp [sentSomething, State.pop, take_new1, Out.isSend]⟩
    | some m =>
      simp only [endsSession] at hx
      split at hx
      · rename_i b hact
        refine ⟨_, rfl, ?_, ?_, ?_⟩ <;> simp [dispatch, hact, sentSomething, take_new2, Out.isSend]
      · simp at hx
  obtain ⟨st', h1, h2, h3, h4⟩ := hcore
  exact ⟨st', by simp [step, hc, h1, h4], h2, h3⟩

/-! ### Close returns -/

/-- From a state in which the loop is at its select (or has exited), the send side is open and
    nothing crashed, Close() can run to completion. -/
theorem close_from_quiet (cfg : Cfg) (st : State) (hi : Inv cfg st) (hc : st.crashed = none)
    (hsc : st.sendClosed = false) (hrun : st.run = .idle ∨ st.run = .exited) :
    ∃ evs st', steps cfg st evs = some st' ∧ st'.close = .returned ∧ st'.crashed = none := by
  suffices h : ∃ evs, (steps cfg st evs).map closedOK = some true by
    obtain ⟨evs, h⟩ := h
    obtain ⟨s, h1, h2⟩ := exists_of_map h
    simp [closedOK] at h2
    exact ⟨evs, s, h1, h2.1, h2.2⟩
  obtain ⟨hd, hcl, hf, _⟩ := hi.state
  cases hclose : st.close with
  | returned => exact ⟨[], by simp [steps, closedOK, hclose, hc]⟩
  | waitWorkers =>
    refine ⟨[.closeWorkersDone], ?_⟩
    simp [closedOK, steps, step, stepCore, hc, hsc, hclose]
  | no =>
    cases hdone : st.done with
    | true =>
      refine ⟨[.closeStart, .closeWorkersDone], ?_⟩
      simp [closedOK, steps, step, stepCore, hc, hsc, hclose, hdone]
    | false =>
      have hidle : st.run = .idle := by
        rcases hrun with h | h
        · exact h
        · have := hd.mpr h; rw [hdone] at this; cases this
      refine ⟨[.closeStart, .tick (cfg.closeFactor * cfg.timeout), .closeForce, .runSeeRecvDone, .closeSeeDone,
        .closeWorkersDone], ?_⟩
      simp [closedOK, steps, step, stepCore, hc, hsc, hclose, hdone, hidle, sentSomething, take_new1, Out.isSend]
  | sentGoodbye d =>
    cases hdone : st.done with
    | true =>
      refine ⟨[.closeSeeDone, .closeWorkersDone], ?_⟩
      simp [closedOK, steps, step, stepCore, hc, hsc, hclose, hdone]
    | false =>
      have hidle : st.run = .idle := by
        rcases hrun with h | h
        · exact h
        · have := hd.mpr h; rw [hdone] at this; cases this
      refine ⟨[.tick d, .closeForce, .runSeeRecvDone, .closeSeeDone, .closeWorkersDone], ?_⟩
      simp [closedOK, steps, step, stepCore, hc, hsc, hclose, hdone, hidle, sentSomething, Out.isSend]
  | forced =>
    have hrd := hf hclose
    cases hdone : st.done with
    | true =>
      refine ⟨[.closeSeeDone, .closeWorkersDone], ?_⟩
      simp [closedOK, steps, step, stepCore, hc, hsc, hclose, hdone]
    | false =>
      have hidle : st.run = .idle := by
        rcases hrun with h | h
        · exact h
        · have := hd.mpr h; rw [hdone] at this; cases this
      refine ⟨[.runSeeRecvDone, .closeSeeDone, .closeWorkersDone], ?_⟩
      simp [closedOK, steps, step, stepCore, hc, hsc, hclose, hdone, hidle, hrd, sentSomething, Out.isSend]

/-- "Nothing crashed, the send side is open, the loop is at its select or has exited". -/
def quietB (s : State) : Bool :=
  s.crashed.isNone && !s.sendClosed && (match s.run with | .idle => true | .exited => true | _ => false)

/-- With a clean site table the post-processing of a call never panics. -/
theorem postProcess_no_panic {cfg : Cfg} (hp : cfg.ppt.clean) (st : State) (w : Waiter) (r : Ret) (site : String) :
    postProcess cfg st w r ≠ .panic site := by
  intro h
  obtain ⟨d, a, k, hpc⟩ := postProcess_panic h
  have := prepareCallResult_clean hp cfg.deser cfg.dealerPPT d a k
  rw [hpc] at this
  simp at this

/-- A waiter that has left its select deletes its entry (closing `gone`): the step exists, nothing
    crashes, the send side stays open, the loop is untouched, the waiter has left. -/
theorem finish_step_ok (cfg : Cfg) (st : State) (g : Nat) (r : Ret)
    (hp : cfg.ppt.clean) (ha : cfg.abortClosesSend = false)
    (hc : st.crashed = none) (hsc : st.sendClosed = false) (hph : (st.ws g).phase = .finishing r) :
    ∃ st1, step cfg st (.finish g) = some st1 ∧ st1.crashed = none ∧ st1.sendClosed = false ∧
      st1.run = st.run ∧ (st1.ws g).phase.left = true := by
  by_cases hprog : (st.ws g).hasProg = true
  · refine ⟨(st.forget cfg (st.ws g).req).setW g { st.ws g with phase := .closing r }, ?_, ?_, ?_, ?_, ?_⟩
    · simp [step, stepCore, hc, hsc, hph, hprog]
    · simpa using hc
    · simpa using hsc
    · simp
    · simp [Phase.left]
  · have hcore : stepCore cfg st (.finish g) = some (complete cfg (st.forget cfg (st.ws g).req) g r) := by
      simp [stepCore, hph, hprog]
    rcases complete_cases cfg (st.forget cfg (st.ws g).req) g r with ⟨site, hpanic, _⟩ | ⟨st1, r', sm, hpp, ho⟩
    · exact absurd hpanic (postProcess_no_panic hp _ _ _ _)
    · refine ⟨complete cfg (st.forget cfg (st.ws g).req) g r, by simp [step, hc, hsc, hcore], ?_, ?_, ?_, ?_⟩
      · rw [ho]; simp [sm.crashed, hc]
      · rw [ho]; simp [postProcess_sendClosed ha hpp, hsc]
      · rw [ho]; simp [sm.run]
      · rw [ho]; simp [Phase.left]

/-- Whatever the loop is doing, it can be brought back to its select by letting the goroutine it
    waits for take its next steps: a waiter on its way into its select, the progress goroutine,
    the application's event handler, a worker — or, for a waiter that has gone, the waiter's own
    exit path, after which the loop takes the `gone` case. -/
theorem unblock_run (cfg : Cfg) (st : State) (hi : Inv cfg st) (hc : st.crashed = none)
    (hsc : st.sendClosed = false) (hp : cfg.ppt.clean) (ha : cfg.abortClosesSend = false)
    (hns : ¬ RunStuck cfg st) :
    ∃ evs, (steps cfg st evs).map quietB = some true := by
  cases hrun : st.run with
  | idle => exact ⟨[], by simp [steps, quietB, hc, hsc, hrun]⟩
  | exited => exact ⟨[], by simp [steps, quietB, hc, hsc, hrun]⟩
  | inEvent => exact ⟨[.eventReturn], by simp [steps, step, stepCore, quietB, hc, hsc, hrun]⟩
  | busy m => exact ⟨[.busyEnd], by simp [steps, step, stepCore, quietB, hc, hsc, hrun]⟩
  | signalling g m =>
    have hst := (hi.corr.2 g m hrun).2
    have hesc : (st.ws g).phase.gone = true → cfg.signalEscapes = true := by
      intro hg
      cases he : cfg.signalEscapes with
      | true => rfl
      | false => exact absurd ⟨he, g, m, hrun, hg⟩ hns
    cases hph : (st.ws g).phase with
    | idle => simp [hph, Phase.started] at hst
    | pending =>
      exact ⟨[.apiWait g, .deliver], by simp [steps, step, stepCore, quietB, hc, hsc, hrun, hph]⟩
    | waiting => exact ⟨[.deliver], by simp [steps, step, stepCore, quietB, hc, hsc, hrun, hph]⟩
    | cancelWaiting k => exact ⟨[.deliver], by simp [steps, step, stepCore, quietB, hc, hsc, hrun, hph]⟩
    | progSending m' =>
      cases hpb : (st.ws g).progBusy with
      | true =>
        exact ⟨[.progReturn g, .progTake g, .deliver],
          by simp [steps, step, stepCore, quietB, hc, hsc, hrun, hph, hpb]⟩
      | false =>
        exact ⟨[.progTake g, .deliver], by simp [steps, step, stepCore, quietB, hc, hsc, hrun, hph, hpb]⟩
    | finishing r =>
      have he := hesc (by simp [hph, Phase.gone])
      obtain ⟨st1, h1, hc1, hsc1, hrun1, hleft⟩ := finish_step_ok cfg st g r hp ha hc hsc hph
      refine ⟨[.finish g, .giveUp], ?_⟩
      have h2 : step cfg st1 .giveUp = some { st1 with run := .idle } := by
        simp [step, stepCore, hc1, hsc1, hrun1, hrun, he, hleft]
      simp [steps, h1, h2, quietB, hc1, hsc1]
    | closing r =>
      have he := hesc (by simp [hph, Phase.gone])
      exact ⟨[.giveUp], by simp [steps, step, stepCore, quietB, hc, hsc, hrun, hph, he, Phase.left]⟩
    | returned r =>
      have he := hesc (by simp [hph, Phase.gone])
      exact ⟨[.giveUp], by simp [steps, step, stepCore, quietB, hc, hsc, hrun, hph, he, Phase.left]⟩

theorem inv_steps (cfg : Cfg) (evs : List Ev) (st st' : State) (hi : Inv cfg st)
    (h : steps cfg st evs = some st') : Inv cfg st' :=
  steps_invariant cfg (Inv cfg) (inv_step cfg) evs st st' hi h

/-! ### who closes the send channel, and what can still panic -/

/-- With today's `abortSession` only `Close()` closes the send channel (once, as its last act), and
    with a clean site table the only panic left is a send on that closed channel (F43). -/
def InvClose (st : State) : Prop :=
  (st.sendClosed = true → st.close = .returned) ∧
  (∀ s, st.crashed = some s → s = "send on closed channel" ∧ st.sendClosed = true)

theorem invClose_init : InvClose {} := by
  constructor <;> intros <;> simp_all

theorem invClose_step (cfg : Cfg) (hp : cfg.ppt.clean) (ha : cfg.abortClosesSend = false)
    (st : State) (ev : Ev) (st' : State)
    (hinv : InvClose st) (h : step cfg st ev = some st') : InvClose st' := by
  obtain ⟨h1, h2⟩ := hinv
  analyse_step
  all_goals (try (exact absurd hpanic (postProcess_no_panic hp _ _ _ _)))
  all_goals (try (exfalso; have hcl := eventPpt_clean hp cfg.deser d a k; rw [hpanic] at hcl; simp at hcl))
  all_goals (try (have hscp := postProcess_sendClosed ha hpp))
  all_goals (refine ⟨?_, ?_⟩)
  all_goals (try (intro s hs))
  all_goals live_close

/-- With today's code a step that ends in a crash is a send after `Close()` closed the channel: the
    state before had the send side closed and is otherwise unchanged. -/
theorem crash_step (cfg : Cfg) (hp : cfg.ppt.clean) (ha : cfg.abortClosesSend = false)
    (st : State) (ev : Ev) (st' : State) (hinv : InvClose st) (h : step cfg st ev = some st')
    (hcr : st'.crashed.isSome = true) :
    st.sendClosed = true ∧ st' = { st with crashed := some "send on closed channel" } := by
  obtain ⟨h1, h2⟩ := hinv
  analyse_step
  all_goals (try (exact absurd hpanic (postProcess_no_panic hp _ _ _ _)))
  all_goals (try (exfalso; have hcl := eventPpt_clean hp cfg.deser d a k; rw [hpanic] at hcl; simp at hcl))
  all_goals (try (have hscp := postProcess_sendClosed ha hpp))
  all_goals (try (exact ⟨hscl, rfl⟩))
  all_goals exfalso
  all_goals live_close

theorem invClose_reachable (cfg : Cfg) (hp : cfg.ppt.clean) (ha : cfg.abortClosesSend = false)
    (st : State) (h : Reachable cfg st) : InvClose st :=
  reachable_invariant cfg InvClose invClose_init (invClose_step cfg hp ha) st h

/-- A crashed client takes no further step: a crash is the last event of a run. -/
theorem steps_crashed (cfg : Cfg) (st : State) (evs : List Ev) (st' : State) (hc : st.crashed.isSome = true)
    (h : steps cfg st evs = some st') : evs = [] ∧ st' = st := by
  cases evs with
  | nil => simp [steps] at h; exact ⟨rfl, h.symm⟩
  | cons e es => simp [steps, step, hc] at h

/-- Split a run that ends crashed at the crashing event. -/
theorem crash_split (cfg : Cfg) (evs : List Ev) (st0 st : State) (h0 : st0.crashed = none)
    (h : steps cfg st0 evs = some st) (hc : st.crashed.isSome = true) :
    ∃ pre ev st1, evs = pre ++ [ev] ∧ steps cfg st0 pre = some st1 ∧ st1.crashed = none ∧ step cfg st1 ev = some st := by
  induction evs generalizing st0 with
  | nil => simp [steps] at h; subst h; simp [h0] at hc
  | cons e es ih =>
    simp only [steps] at h
    cases hs : step cfg st0 e with
    | none => simp [hs] at h
    | some s1 =>
      rw [hs] at h
      simp only [Option.bind_some] at h
      cases hc1 : s1.crashed with
      | some x =>
        obtain ⟨he, hst⟩ := steps_crashed cfg s1 es st (by simp [hc1]) h
        subst he; subst hst
        exact ⟨[], e, st0, rfl, rfl, h0, hs⟩
      | none =>
        obtain ⟨pre, ev, st1, he, hp, hc', hst⟩ := ih s1 hc1 h
        exact ⟨e :: pre, ev, st1, by simp [he], by simp [steps, hs, hp], hc', hst⟩

/-- A send after `Close()` closed the channel panics (whichever goroutine it is). -/
theorem send_after_close_panics (cfg : Cfg) (st st2 : State) (ev : Ev) (hc : st.crashed = none)
    (hsc : st.sendClosed = true) (h : stepCore cfg st ev = some st2) (hs : sentSomething st st2 = true) :
    step cfg st ev = some { st with crashed := some "send on closed channel" } := by
  simp [step, hc, h, hsc, hs]

/-- F43, delimited: a run of today's client ends in a panic IF AND ONLY IF its last event was taken
    in an uncrashed state in which `Close()` had returned (and closed the send channel), and that
    event is a panicking send — nothing else changes in the state. -/
theorem crash_iff (cfg : Cfg) (hp : cfg.ppt.clean) (ha : cfg.abortClosesSend = false)
    (evs : List Ev) (st : State) (h : steps cfg {} evs = some st) :
    st.crashed.isSome = true ↔
    ∃ pre ev st1, evs = pre ++ [ev] ∧ steps cfg {} pre = some st1 ∧ st1.crashed = none ∧
      st1.close = .returned ∧ st1.sendClosed = true ∧
      step cfg st1 ev = some { st1 with crashed := some "send on closed channel" } ∧
      st = { st1 with crashed := some "send on closed channel" } := by
  constructor
  · intro hc
    obtain ⟨pre, ev, st1, he, hpre, hc1, hst⟩ := crash_split cfg evs {} st rfl h hc
    have hi := invClose_reachable cfg hp ha st1 ⟨pre, hpre⟩
    obtain ⟨hsc, heq⟩ := crash_step cfg hp ha st1 ev st hi hst hc
    exact ⟨pre, ev, st1, he, hpre, hc1, hi.1 hsc, hsc, heq ▸ hst, heq⟩
  · rintro ⟨pre, ev, st1, _, _, _, _, _, _, rfl⟩
    rfl

/-- From every reachable state in which nothing has crashed and the loop is not stuck for good,
    some continuation lets Close() return (the application's handlers return, the workers finish). -/
theorem close_can_return (cfg : Cfg) (hp : cfg.ppt.clean) (ha : cfg.abortClosesSend = false)
    (st : State) (hr : Reachable cfg st) (hc : st.crashed = none) (hns : ¬ RunStuck cfg st) :
    ∃ evs st', steps cfg st evs = some st' ∧ st'.close = .returned ∧ st'.crashed = none := by
  have hi := inv_reachable cfg st hr
  have hcl := invClose_reachable cfg hp ha st hr
  cases hsc : st.sendClosed with
  | true => exact ⟨[], st, rfl, hcl.1 hsc, hc⟩
  | false =>
    obtain ⟨e1, h1⟩ := unblock_run cfg st hi hc hsc hp ha hns
    obtain ⟨s1, hs1, hq⟩ := exists_of_map h1
    simp only [quietB, Bool.and_eq_true, Option.isNone_iff_eq_none, Bool.not_eq_true'] at hq
    obtain ⟨⟨hc1, hsc1⟩, hrun1⟩ := hq
    have hrun1' : s1.run = .idle ∨ s1.run = .exited := by
      cases hr1 : s1.run <;> simp [hr1] at hrun1 ⊢
    obtain ⟨e2, s2, hs2, hcl2, hcr⟩ := close_from_quiet cfg s1 (inv_steps cfg e1 st s1 hi hs1) hc1 hsc1 hrun1'
    exact ⟨e1 ++ e2, s2, by rw [steps_concat, hs1]; simpa using hs2, hcl2, hcr⟩

end Nexus.Client.R
