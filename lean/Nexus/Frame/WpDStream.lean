/-
  Helper lemmas for the audit-D extensions of `Nexus.Props.C15` (work package D):

  * `run_msg_truncated`   — a MSG frame whose body has not arrived completely (audit a6);
  * `run_bad_header`      — the close reason of a bad header, exactly (audit a7);
  * `InFrame`, `run_inframes` — an arbitrary inbound mix of MSG / PING / PONG frames with any
    header byte whose type bits are 0, 1, 2 (audit a4; `run_units` knows only the two unit kinds
    a nexus writer produces);
  * `run_pong_oversize`   — a PONG longer than the reader's limit (audit b2);
  * `connect_ok_limits`   — what a successful `connect` says about the two peers' limits, for
    EVERY protocol byte (audit a5);
  * `readerAtEOF`         — the earlier hand-written reading of what `recvHandler` does when the
    stream ends, shown equal to the model's end-of-stream step `Nexus.Frame.atEOF`;
  * `run_pong_truncated`  — a PONG frame whose payload has not arrived completely.

  Nothing here changes the model; every statement is about `Nexus.Frame.*` as it is.
-/
import Nexus.Frame.HandshakeLemmas
import Nexus.Frame.StreamLemmas
import Nexus.Frame.WritersLemmas

namespace Nexus.Frame.WpD
open Nexus Nexus.Frame

section
variable {M : Type} (de : List UInt8 → Option M) (rl : Int)

/-! ## truncated MSG frame -/

/-- A MSG frame announcing `n ≤ recvLimit` bytes of which only `p.length < n` have arrived:
    no event, the reader is blocked in `io.ReadFull(buf)` with what it has. -/
theorem run_msg_truncated (h0 l0 l1 l2 : UInt8) (n : Nat) (p : List UInt8)
    (hk : Gen.readerCase (Gen.frameType h0) = .msg)
    (hn : Gen.bytesToInt [l0, l1, l2] = Int.ofNat n) (hle : (n : Int) ≤ rl) (hp : p.length < n) :
    run de rl .hdr0 (h0 :: l0 :: l1 :: l2 :: p) = ([], .body (n - 1 - p.length) p.reverse) := by
  rw [run_header, onHeader_msg de rl h0 l0 l1 l2 n hk hn hle]
  rw [if_neg (show ¬ n = 0 by omega)]
  simp only [List.nil_append]
  rw [run_body_short de rl p (n - 1) [] (by omega)]
  simp

/-- Fewer than four header bytes: no event, the reader is blocked in `io.ReadFull(header)`. -/
theorem run_header_short (bs : List UInt8) (h : bs.length < 4) :
    run de rl .hdr0 bs =
      ([], match bs with
           | [] => .hdr0
           | [a] => .hdr1 a
           | [a, b] => .hdr2 a b
           | a :: b :: c :: _ => .hdr3 a b c) := by
  match bs, h with
  | [], _ => rfl
  | [_], _ => rfl
  | [_, _], _ => rfl
  | [_, _, _], _ => rfl
  | _ :: _ :: _ :: _ :: _, h => simp at h; omega

/-! ## bad header, with the reason -/

/-- A header that announces more than the receive limit, or whose type bits are 3..7: the
    reader closes; `oversize` when the length is over the limit (that check comes first,
    whatever the type), `reservedType` otherwise. -/
theorem run_bad_header (h0 l0 l1 l2 : UInt8) (rest : List UInt8)
    (hbad : Gen.bytesToInt [l0, l1, l2] > rl ∨ 3 ≤ h0.toNat % 8) :
    run de rl .hdr0 (h0 :: l0 :: l1 :: l2 :: rest) =
      ([], .closed (if Gen.bytesToInt [l0, l1, l2] > rl then .oversize else .reservedType)) := by
  by_cases ho : Gen.bytesToInt [l0, l1, l2] > rl
  · rw [if_pos ho]
    exact run_oversize de rl h0 l0 l1 l2 rest ho
  · rw [if_neg ho]
    have h3 : 3 ≤ h0.toNat % 8 := by
      rcases hbad with h | h
      · exact absurd h ho
      · exact h
    have hk : Gen.readerCase (Gen.frameType h0) = .reserved := by
      rw [readerCase_frameType, if_neg (by omega), if_neg (by omega), if_neg (by omega)]
    rw [run_header]
    unfold onHeader
    have hno : Gen.recvOversize (Gen.bytesToInt [l0, l1, l2]) rl = false := by
      unfold Gen.recvOversize
      simpa using ho
    simp only [hk, hno, Bool.false_eq_true, if_false]
    rw [run_closed]
    simp

/-! ## arbitrary inbound frames -/

/-- One inbound frame as any peer may send it: four header bytes and the bytes that follow. -/
structure InFrame where
  h0 : UInt8
  l0 : UInt8
  l1 : UInt8
  l2 : UInt8
  payload : List UInt8
  deriving Repr

def InFrame.bytes (f : InFrame) : List UInt8 := f.h0 :: f.l0 :: f.l1 :: f.l2 :: f.payload

/-- Type bits 0 (MSG), 1 (PING) or 2 (PONG) — the upper five bits of byte 0 are arbitrary —, the
    length field says how many bytes follow, and that is within the reader's limit. -/
def InFrame.wellFormed (f : InFrame) (recvLimit : Int) : Prop :=
  f.h0.toNat % 8 ≤ 2 ∧
    Gen.bytesToInt [f.l0, f.l1, f.l2] = Int.ofNat f.payload.length ∧
    (f.payload.length : Int) ≤ recvLimit

/-- What the reader does for one such frame: MSG — hand over the deserialised payload (nothing if
    it does not deserialise); PING — ONE write of the PONG frame; PONG — nothing. -/
def InFrame.events (f : InFrame) : List (Ev M) :=
  if f.h0.toNat % 8 = 0 then payloadEvents de f.payload
  else if f.h0.toNat % 8 = 1 then [.wrote (2 :: f.l0 :: f.l1 :: f.l2 :: f.payload)]
  else []

theorem run_inframe (f : InFrame) (hf : f.wellFormed rl) (rest : List UInt8) :
    run de rl .hdr0 (f.bytes ++ rest) =
      (f.events de ++ (run de rl .hdr0 rest).1, (run de rl .hdr0 rest).2) := by
  obtain ⟨ht, hn, hle⟩ := hf
  have hb : f.bytes ++ rest = f.h0 :: f.l0 :: f.l1 :: f.l2 :: (f.payload ++ rest) := rfl
  rw [hb]
  unfold InFrame.events
  by_cases h0 : f.h0.toNat % 8 = 0
  · have hk : Gen.readerCase (Gen.frameType f.h0) = .msg := by
      rw [readerCase_frameType, if_pos h0]
    rw [run_msg_frame de rl _ _ _ _ _ rest hk hn hle, if_pos h0]
  · by_cases h1 : f.h0.toNat % 8 = 1
    · have hk : Gen.readerCase (Gen.frameType f.h0) = .ping := by
        rw [readerCase_frameType, if_neg h0, if_pos h1]
      rw [run_ping_frame de rl _ _ _ _ _ rest hk hn hle, if_neg h0, if_pos h1]
      rfl
    · have hk : Gen.readerCase (Gen.frameType f.h0) = .pong := by
        rw [readerCase_frameType, if_neg h0, if_neg h1, if_pos (by omega)]
      rw [run_pong_frame de rl _ _ _ _ _ rest hk hn hle, if_neg h0, if_neg h1]
      rfl

/-- Any sequence of well-formed inbound frames, then anything: each frame has exactly its own
    effect, in order, and the reader is then where it would be on `rest` alone. -/
theorem run_inframes (fs : List InFrame) (hf : ∀ f, f ∈ fs → f.wellFormed rl) (rest : List UInt8) :
    run de rl .hdr0 (fs.flatMap InFrame.bytes ++ rest) =
      (fs.flatMap (InFrame.events de) ++ (run de rl .hdr0 rest).1, (run de rl .hdr0 rest).2) := by
  induction fs with
  | nil => simp
  | cons f fs ih =>
    simp only [List.flatMap_cons, List.append_assoc]
    rw [run_inframe de rl f (hf f List.mem_cons_self),
      ih (fun x hx => hf x (List.mem_cons_of_mem _ hx))]

/-! ## a PONG longer than the reader's limit -/

/-- A PONG frame whose header announces more than the READER's receive limit closes the reader,
    like any other oversize frame; nothing after it is looked at. -/
theorem run_pong_oversize (q : Pong) (rest : List UInt8)
    (hn : Gen.bytesToInt [q.l0, q.l1, q.l2] = Int.ofNat q.payload.length)
    (h : (q.payload.length : Int) > rl) :
    run de rl .hdr0 (pongFrame q ++ rest) = ([], .closed .oversize) := by
  have hb : pongFrame q ++ rest = Gen.pongType :: q.l0 :: q.l1 :: q.l2 :: (q.payload ++ rest) := rfl
  rw [hb]
  apply run_oversize
  rw [hn]
  exact h

end

/-! ## the reader's own write calls -/

/-- The `conn.Write` calls the reader goroutine made, in order: one per `wrote` event. -/
def writeCalls {M : Type} : List (Ev M) → List WriteCall
  | [] => []
  | .wrote bs :: es => ⟨.reader, bs⟩ :: writeCalls es
  | _ :: es => writeCalls es

theorem writeCalls_append {M : Type} (a b : List (Ev M)) :
    writeCalls (a ++ b) = writeCalls a ++ writeCalls b := by
  induction a with
  | nil => rfl
  | cons e es ih => cases e <;> simp [writeCalls, ih]

theorem writeCalls_payloadEvents {M : Type} (de : List UInt8 → Option M) (p : List UInt8) :
    writeCalls (payloadEvents de p) = [] := by
  unfold payloadEvents
  cases de p <;> rfl

/-- The PINGs among a sequence of inbound frames, as the PONGs that answer them. -/
def pongsOf (fs : List InFrame) : List Pong :=
  fs.flatMap (fun f => if f.h0.toNat % 8 = 1 then [⟨f.l0, f.l1, f.l2, f.payload⟩] else [])

theorem readerCalls_cons (q : Pong) (qs : List Pong) :
    readerCalls (q :: qs) = ⟨.reader, pongFrame q⟩ :: readerCalls qs := by
  unfold readerCalls
  rw [List.flatMap_cons]
  simp [pongCalls, Gen.pongWriteParts, writePart, pongFrame]

/-- On a sequence of well-formed inbound frames the reader goroutine makes exactly the write
    calls `readerCalls (pongsOf fs)`: one whole PONG frame per PING, in order, nothing else. -/
theorem writeCalls_inframes {M : Type} (de : List UInt8 → Option M) (rl : Int)
    (fs : List InFrame) (hf : ∀ f, f ∈ fs → f.wellFormed rl) :
    writeCalls (run de rl .hdr0 (fs.flatMap InFrame.bytes)).1 = readerCalls (pongsOf fs) := by
  have h := run_inframes de rl fs hf []
  rw [List.append_nil] at h
  rw [h]
  simp only [run, List.append_nil]
  clear h hf
  induction fs with
  | nil => rfl
  | cons f fs ih =>
    rw [List.flatMap_cons, writeCalls_append, ih]
    unfold pongsOf
    rw [List.flatMap_cons]
    unfold InFrame.events
    by_cases h0 : f.h0.toNat % 8 = 0
    · rw [if_pos h0, if_neg (by omega), writeCalls_payloadEvents]
      rfl
    · by_cases h1 : f.h0.toNat % 8 = 1
      · rw [if_neg h0, if_pos h1, if_pos h1]
        simp only [List.singleton_append]
        show _ = readerCalls (_ :: pongsOf fs)
        rw [readerCalls_cons]
        rfl
      · rw [if_neg h0, if_neg h1, if_neg h1]
        rfl

/-- Every PONG answering a well-formed PING is well formed w.r.t. the ANSWERER's limit. -/
theorem pongsOf_wellFormed (rl : Int) (fs : List InFrame) (hf : ∀ f, f ∈ fs → f.wellFormed rl) :
    ∀ q, q ∈ pongsOf fs → q.wellFormed rl := by
  intro q hq
  unfold pongsOf at hq
  obtain ⟨f, hfm, hq⟩ := List.mem_flatMap.mp hq
  by_cases h1 : f.h0.toNat % 8 = 1
  · rw [if_pos h1] at hq
    have : q = ⟨f.l0, f.l1, f.l2, f.payload⟩ := by simpa using hq
    subst this
    exact (hf f hfm).2
  · rw [if_neg h1] at hq
    cases hq

/-- ... and w.r.t. any other limit exactly when the PING itself was no longer than that. -/
theorem pongsOf_wellFormed_other (rl rl' : Int) (fs : List InFrame)
    (hf : ∀ f, f ∈ fs → f.wellFormed rl)
    (hp : ∀ f, f ∈ fs → f.h0.toNat % 8 = 1 → (f.payload.length : Int) ≤ rl') :
    ∀ q, q ∈ pongsOf fs → q.wellFormed rl' := by
  intro q hq
  unfold pongsOf at hq
  obtain ⟨f, hfm, hq⟩ := List.mem_flatMap.mp hq
  by_cases h1 : f.h0.toNat % 8 = 1
  · rw [if_pos h1] at hq
    have : q = ⟨f.l0, f.l1, f.l2, f.payload⟩ := by simpa using hq
    subst this
    exact ⟨(hf f hfm).2.1, hp f hfm h1⟩
  · rw [if_neg h1] at hq
    cases hq

theorem merge_right_first {α : Type} (as bs : List α) : Merge as bs (bs ++ as) := by
  induction bs with
  | nil =>
    induction as with
    | nil => exact .nil
    | cons a as ih => exact .left ih
  | cons b bs ih => exact .right ih

/-! ## Pong.wellFormed and the two limits -/

/-- Well-formed with respect to the smaller of two limits = well-formed with respect to both. -/
theorem wellFormed_min (q : Pong) (a b : Int) :
    q.wellFormed (min a b) ↔ q.wellFormed a ∧ q.wellFormed b := by
  unfold Pong.wellFormed
  constructor
  · rintro ⟨h1, h2⟩
    exact ⟨⟨h1, by omega⟩, ⟨h1, by omega⟩⟩
  · rintro ⟨⟨h1, h2⟩, ⟨_, h3⟩⟩
    exact ⟨h1, by omega⟩

/-! ## handshake: what a successful `connect` says -/

/-- The client accepts a reply only if the reply's serializer nibble equals its protocol byte,
    so a client that ends with a peer has a protocol byte below 16. -/
theorem clientHandshake_ok_proto (p : UInt8) (rc : Int) (r0 r1 r2 r3 : UInt8) (c : PeerCfg)
    (h : clientHandshake p rc r0 r1 r2 r3 = .ok c) : p.toNat ≤ 15 := by
  obtain ⟨c1, c2, _, _, c5, _⟩ := client_cases p rc r0 r1 r2 r3
  by_cases h0 : r0 = 0x7f
  · by_cases hs : r1.toNat % 16 = 0
    · obtain ⟨e, he⟩ := c2 h0 hs
      rw [he] at h; cases h
    · by_cases hp : r1.toNat % 16 = p.toNat
      · omega
      · rw [c5 h0 hs hp] at h; cases h
  · rw [c1 h0] at h; cases h

theorem clientHandshakeReply_ok_proto (p : UInt8) (rc : Int) (bs : List UInt8) (c : PeerCfg)
    (h : clientHandshakeReply p rc bs = .ok c) : p.toNat ≤ 15 := by
  match bs, h with
  | r0 :: r1 :: r2 :: r3 :: _, h => exact clientHandshake_ok_proto p rc r0 r1 r2 r3 c h
  | [], h => cases h
  | [_], h => cases h
  | [_, _], h => cases h
  | [_, _, _], h => cases h

theorem connect_ok_proto (p : UInt8) (rc rs : Int) (c : PeerCfg) (so : SrvOut)
    (h : connect p rc rs = (.ok c, so)) : p.toNat ≤ 15 := by
  have hreq : clientRequest p rc =
      [0x7f, Go.shlU8 (Gen.fitRecvLimit rc &&& 15) 4 ||| p, 0, 0] := rfl
  unfold connect at h
  rw [hreq] at h
  simp only [] at h
  exact clientHandshakeReply_ok_proto p rc _ c (Prod.mk.inj h).1

/-- For EVERY protocol byte and every pair of configured limits: when the dialling client and
    the server both end with a peer, the two peers have the same serializer and each one's send
    limit is the other's receive limit. -/
theorem connect_ok_limits (p : UInt8) (rc rs : Int) (c s : PeerCfg) (rep : List UInt8)
    (h : connect p rc rs = (.ok c, ⟨some rep, .ok s⟩)) :
    c.serializer = s.serializer ∧ c.sendLimit = s.recvLimit ∧ s.sendLimit = c.recvLimit := by
  have hp := connect_ok_proto p rc rs c _ h
  rcases connect_together p hp rc rs with ⟨c', s', rep', h', hs, h1, h2⟩ | ⟨e, e', rep', h'⟩
  · rw [h] at h'
    injection h' with hc hso
    injection hc with hc
    injection hso with _ hres
    injection hres with hres
    subst hc; subst hres
    exact ⟨hs, h1, h2⟩
  · rw [h] at h'
    injection h' with hc _
    cases hc

/-! ## end of stream

  End of stream is an input of the reader model now (`Nexus.Frame.In`, `atEOF`, `stepIn`,
  `runIn`, `decodeStreamEOF`, `readErrAction` in `Nexus/Frame/Stream.lean`).  `readerAtEOF`
  below is the earlier hand-written reading, kept for reference only; `readerAtEOF_atEOF`
  shows it says the same as the model's end-of-stream step. -/

/-- How `recvHandler` ends when the byte stream ends (the peer closed its writing side, or the
    connection broke) with the reader in state `s`. In every case the goroutine returns, the
    deferred `close(rs.rd)` runs, and NO further message is handed over:
    * already `closed why` — it had closed the connection itself;
    * `hdr0` — `io.ReadFull(header)` returns `io.EOF` (rawsocketpeer.go:269-286);
    * inside a header / a body — `io.ReadFull` returns `io.ErrUnexpectedEOF`
      (:269-286 for the header, :299-304 MSG, :317-321 PING, :329-334 PONG): the partial frame
      is discarded. -/
inductive EndOfStream where
  | closedBefore (why : CloseReason)
  | eofBetweenFrames
  | eofInsideFrame (blockedIn : RState)
  deriving Repr, DecidableEq

def readerAtEOF : RState → EndOfStream
  | .closed why => .closedBefore why
  | .hdr0 => .eofBetweenFrames
  | s => .eofInsideFrame s

/-- The earlier reading and the model's end-of-stream step agree. -/
theorem readerAtEOF_atEOF (s : RState) :
    atEOF s = match readerAtEOF s with
      | .closedBefore why => .closed why
      | .eofBetweenFrames => .closed (.eof false)
      | .eofInsideFrame _ => .closed (.eof true) := by
  cases s <;> rfl

section
variable {M : Type} (de : List UInt8 → Option M) (rl : Int)

/-- A PONG frame announcing `n ≤ recvLimit` bytes of which only `p.length < n` have arrived:
    no event, the reader is blocked in `io.CopyN(io.Discard, …)`. -/
theorem run_pong_truncated (h0 l0 l1 l2 : UInt8) (n : Nat) (p : List UInt8)
    (hk : Gen.readerCase (Gen.frameType h0) = .pong)
    (hn : Gen.bytesToInt [l0, l1, l2] = Int.ofNat n) (hle : (n : Int) ≤ rl) (hp : p.length < n) :
    run de rl .hdr0 (h0 :: l0 :: l1 :: l2 :: p) = ([], .discard (n - 1 - p.length)) := by
  have hd : ∀ (p : List UInt8) (k : Nat), p.length ≤ k →
      run de rl (.discard k) p = (([] : List (Ev M)), RState.discard (k - p.length)) := by
    intro p
    induction p with
    | nil => intro k _; simp [run]
    | cons x xs ih =>
      intro k h
      cases k with
      | zero => simp at h
      | succ k =>
        simp only [run, step]
        rw [ih k (by simpa using h)]
        simp
  rw [run_header]
  unfold onHeader
  simp only [hn, hk]
  rw [if_neg (by rw [not_oversize rl hle]; simp)]
  have e : (Int.ofNat n).toNat = n := by simp
  simp only [e, if_neg (show ¬ n = 0 by omega)]
  rw [hd p (n - 1) (by omega)]
  simp

end

end Nexus.Frame.WpD
