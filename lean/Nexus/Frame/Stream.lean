/-
  Framing (the sender goroutine) and the reader goroutine of a rawsocket peer.

  * `frame` — what `sendHandler` puts on the wire for one serialised message
    (`none` = the message is dropped, nothing is written);
  * the reader as a byte-at-a-time state machine (`step`) that mirrors
    `recvHandler`: `io.ReadFull(header)`, the length check, the switch on
    `header[0] & 0x07`, `io.ReadFull(buf)` / `io.CopyN` for the body.  A state
    other than `closed` is the reader blocked in a read, waiting for more bytes;
  * `decodeStream`: the machine run over a whole incoming byte stream.  Being a
    fold over the bytes it does not depend on how the stream is cut into
    chunks (`Nexus.C15.chunking`).

  Deserialisation is a parameter `de : List UInt8 → Option M` (C14 covers the
  codecs).  All decisions come from the generated `Nexus.Gen`.

  Core-only.
-/
import Nexus.Gen.Frame

namespace Nexus.Frame
open Nexus

/-! ## sender -/

/-- The 4-byte header `sendHandler` builds for a payload of n bytes. -/
def frameHeader (n : Nat) : List UInt8 := Gen.sendHeader (Gen.intToBytes (Int.ofNat n))

/-- A part of a write call as named in `Gen.senderWriteParts` / `Gen.pongWriteParts`. -/
def writePart (header payload : List UInt8) : String → List UInt8
  | "header" => header
  | "b" => payload
  | "payload" => payload
  | _ => []

/-- The `conn.Write` calls of `sendHandler` for one serialised message, in
    order (`none`: the message is dropped before anything is written). How many
    calls there are and what each carries comes from the source
    (`Gen.senderWriteParts`): one call `header ++ b` today, two calls before. -/
def frameWrites (sendLimit : Int) (payload : List UInt8) : Option (List (List UInt8)) :=
  if Gen.sendDrop (Int.ofNat payload.length) sendLimit then none
  else some (Gen.senderWriteParts.map (fun parts => parts.flatMap (writePart (frameHeader payload.length) payload)))

/-- The bytes on the wire for one message. -/
def frame (sendLimit : Int) (payload : List UInt8) : Option (List UInt8) :=
  (frameWrites sendLimit payload).map List.flatten

/-- A message passes the sender's size check. -/
def fits (sendLimit : Int) (payload : List UInt8) : Bool :=
  !(Gen.sendDrop (Int.ofNat payload.length) sendLimit)

/-- Everything the sender goroutine writes for a queue of messages, `ser`
    being the serializer (`none` = serialisation error: logged, skipped). -/
def sendAll {M : Type} (ser : M → Option (List UInt8)) (sendLimit : Int) (msgs : List M) : List UInt8 :=
  (msgs.filterMap (fun m => (ser m).bind (frame sendLimit))).flatten

/-- The message reaches the wire: it serialises and passes the size check. -/
def arrives {M : Type} (ser : M → Option (List UInt8)) (sendLimit : Int) (m : M) : Bool :=
  match ser m with
  | some p => fits sendLimit p
  | none => false

/-! ## reader -/

inductive CloseReason where
  | oversize          -- length > recvLimit
  | reservedType      -- default case of the type switch
  | undeserialisable  -- only if the generated `deserializeErrorSkips` is false
  deriving Repr, DecidableEq

/-- Where the reader goroutine is blocked. `body n acc`: `io.ReadFull(buf)` still
    needs n+1 bytes, `acc` holds the bytes read so far, newest first. `pbody`: the same
    for a PING payload read into `pong[4:]` (the three length bytes are kept for the answer).
    `echo n` (only when the source answers a PING with `io.CopyN(conn, conn)`, i.e.
    `Gen.pongAfterPayload = false`) / `discard n`: `io.CopyN` still has n+1 bytes to go. -/
inductive RState where
  | hdr0
  | hdr1 (h0 : UInt8)
  | hdr2 (h0 l0 : UInt8)
  | hdr3 (h0 l0 l1 : UInt8)
  | body (more : Nat) (acc : List UInt8)
  | pbody (l0 l1 l2 : UInt8) (more : Nat) (acc : List UInt8)
  | echo (more : Nat)
  | discard (more : Nat)
  | closed (why : CloseReason)
  deriving Repr, DecidableEq

/-- What the reader does that is visible outside. -/
inductive Ev (M : Type) where
  /-- `rs.rd <- msg` -/
  | deliver (m : M)
  /-- `rs.rd <- nil` (possible only when the type switch has no default clause) -/
  | deliverNil
  /-- `rs.conn.Write(bs)` by the reader goroutine (PONG header, echoed payload) -/
  | wrote (bs : List UInt8)
  deriving Repr, DecidableEq

section
variable {M : Type} (de : List UInt8 → Option M)

/-- A complete message payload has been read. -/
def onPayload (payload : List UInt8) : RState × List (Ev M) :=
  match de payload with
  | some m => (.hdr0, [.deliver m])
  | none => if Gen.deserializeErrorSkips then (.hdr0, []) else (.closed .undeserialisable, [])

/-- A PING header announcing n payload bytes has been read. -/
def onPing (l0 l1 l2 : UInt8) (n : Nat) : RState × List (Ev M) :=
  match Gen.pongAfterPayload with
  | true =>  -- read the payload, then ONE write of the whole PONG frame
    if n = 0 then (.hdr0, [.wrote [Gen.pongType, l0, l1, l2]])
    else (.pbody l0 l1 l2 (n - 1) [], [])
  | false => -- PONG header at once, then the payload copied back as it arrives
    (if n = 0 then .hdr0 else .echo (n - 1), [.wrote [Gen.pongType, l0, l1, l2]])

/-- The four header bytes have been read. -/
def onHeader (recvLimit : Int) (h0 l0 l1 l2 : UInt8) : RState × List (Ev M) :=
  let length := Gen.bytesToInt [l0, l1, l2]
  if Gen.recvOversize length recvLimit then (.closed .oversize, [])
  else
    match Gen.readerCase (Gen.frameType h0) with
    | .msg => if length.toNat = 0 then onPayload de [] else (.body (length.toNat - 1) [], [])
    | .ping => onPing l0 l1 l2 length.toNat
    | .pong => (if length.toNat = 0 then .hdr0 else .discard (length.toNat - 1), [])
    | .reserved => (.closed .reservedType, [])
    | .fallthroughNil => (.hdr0, [.deliverNil])

/-- One more byte arrives. -/
def step (recvLimit : Int) : RState → UInt8 → RState × List (Ev M)
  | .hdr0, b => (.hdr1 b, [])
  | .hdr1 h0, b => (.hdr2 h0 b, [])
  | .hdr2 h0 l0, b => (.hdr3 h0 l0 b, [])
  | .hdr3 h0 l0 l1, b => onHeader de recvLimit h0 l0 l1 b
  | .body 0 acc, b => onPayload de (b :: acc).reverse
  | .body (n + 1) acc, b => (.body n (b :: acc), [])
  | .pbody l0 l1 l2 0 acc, b => (.hdr0, [.wrote (Gen.pongType :: l0 :: l1 :: l2 :: (b :: acc).reverse)])
  | .pbody l0 l1 l2 (n + 1) acc, b => (.pbody l0 l1 l2 n (b :: acc), [])
  | .echo 0, b => (.hdr0, [.wrote [b]])
  | .echo (n + 1), b => (.echo n, [.wrote [b]])
  | .discard 0, _ => (.hdr0, [])
  | .discard (n + 1), _ => (.discard n, [])
  | .closed why, _ => (.closed why, [])

/-- The reader fed a chunk of bytes from state `s`: events in order, final state. -/
def run (recvLimit : Int) : RState → List UInt8 → List (Ev M) × RState
  | s, [] => ([], s)
  | s, b :: bs =>
    let r := step de recvLimit s b
    let t := run recvLimit r.1 bs
    (r.2 ++ t.1, t.2)

/-- The reader fed the stream chunk by chunk (one chunk per successful `Read`), events
    concatenated. -/
def runChunks (recvLimit : Int) : RState → List (List UInt8) → List (Ev M) × RState
  | s, [] => ([], s)
  | s, c :: cs =>
    let r := run de recvLimit s c
    let t := runChunks recvLimit r.2 cs
    (r.1 ++ t.1, t.2)

/-- The reader over the whole incoming stream of a fresh connection. -/
def decodeStream (recvLimit : Int) (bytes : List UInt8) : List (Ev M) × RState :=
  run de recvLimit .hdr0 bytes

end

/-- The messages handed to the router, in order. -/
def delivered {M : Type} : List (Ev M) → List M
  | [] => []
  | .deliver m :: es => m :: delivered es
  | _ :: es => delivered es

/-- The bytes the reader goroutine wrote back, in order. -/
def written {M : Type} : List (Ev M) → List UInt8
  | [] => []
  | .wrote bs :: es => bs ++ written es
  | _ :: es => written es

/-- Number of nil messages handed to the router. -/
def nilCount {M : Type} : List (Ev M) → Nat
  | [] => 0
  | .deliverNil :: es => nilCount es + 1
  | _ :: es => nilCount es

def RState.isClosed : RState → Bool
  | .closed _ => true
  | _ => false

end Nexus.Frame
