/-
  Framing (the sender goroutine) and the reader goroutine of a rawsocket peer.

  * `frame` — what `sendHandler` puts on the wire for one serialised message
    (`none` = the message is dropped, nothing is written);
  * the reader as a byte-at-a-time state machine (`step`) that mirrors
    `recvHandler`: `io.ReadFull(header)`, the length check, the switch on
    `header[0] & 0x07`, `io.ReadFull(buf)` / `io.CopyN` for the body.  A state
    other than `closed` is the reader blocked in a read, waiting for more bytes;
  * `decodeStream`: the machine run over a whole incoming byte stream.  Being a
    fold over the bytes it does not depend on how the stream is cut into
    chunks (`Nexus.C15.chunking`);
  * END OF STREAM as an input (`In`, `atEOF`, `stepIn`, `runIn`, `decodeStreamEOF`): what
    `recvHandler` does when a read fails because the peer closed (or the connection
    broke): nothing is delivered or written for the frame it was in, the goroutine
    returns (`closed (.eof inFrame)`); `readErrAction` says what else it does on the
    way out (log line, cancelling the sender, closing the connection).

  Deserialisation is a parameter `de : List UInt8 → Option M` (C14 covers the
  codecs).  All decisions come from the generated `Nexus.Gen`.

  Core-only.
-/
import Nexus.Gen.Frame

namespace Nexus.Frame
open Nexus

/-! ## sender -/

/-- The 4-byte header `sendHandler` builds for a payload of n bytes. -/
def frameHeader (n : Nat) : List UInt8 := Gen.sendHeader (Gen.intToBytes (Int.ofNat n))

/-- A part of a write call as named in `Gen.senderWriteParts` / `Gen.pongWriteParts`. -/
def writePart (header payload : List UInt8) : String → List UInt8
  | "header" => header
  | "b" => payload
  | "payload" => payload
  | _ => []

/-- The `conn.Write` calls of `sendHandler` for one serialised message, in
    order (`none`: the message is dropped before anything is written). How many
    calls there are and what each carries comes from the source
    (`Gen.senderWriteParts`): one call `header ++ b` today, two calls before. -/
def frameWrites (sendLimit : Int) (payload : List UInt8) : Option (List (List UInt8)) :=
  if Gen.sendDrop (Int.ofNat payload.length) sendLimit then none
  else some (Gen.senderWriteParts.map (fun parts => parts.flatMap (writePart (frameHeader payload.length) payload)))

/-- The bytes on the wire for one message. -/
def frame (sendLimit : Int) (payload : List UInt8) : Option (List UInt8) :=
  (frameWrites sendLimit payload).map List.flatten

/-- A message passes the sender's size check. -/
def fits (sendLimit : Int) (payload : List UInt8) : Bool :=
  !(Gen.sendDrop (Int.ofNat payload.length) sendLimit)

/-- Everything the sender goroutine writes for a queue of messages, `ser`
    being the serializer (`none` = serialisation error: logged, skipped). -/
def sendAll {M : Type} (ser : M → Option (List UInt8)) (sendLimit : Int) (msgs : List M) : List UInt8 :=
  (msgs.filterMap (fun m => (ser m).bind (frame sendLimit))).flatten

/-- The message reaches the wire: it serialises and passes the size check. -/
def arrives {M : Type} (ser : M → Option (List UInt8)) (sendLimit : Int) (m : M) : Bool :=
  match ser m with
  | some p => fits sendLimit p
  | none => false

/-! ## reader -/

inductive CloseReason where
  | oversize          -- length > recvLimit
  | reservedType      -- default case of the type switch
  | undeserialisable  -- only if the generated `deserializeErrorSkips` is false
  /-- A read returned an error (end of stream): `inFrame = false` when it was the FIRST byte of
      a header that did not come (`io.ReadFull` gives `io.EOF`: the stream ended between frames),
      `true` when the stream ended inside a header or a body (`io.ErrUnexpectedEOF`). -/
  | eof (inFrame : Bool)
  deriving Repr, DecidableEq

/-- Where the reader goroutine is blocked. `body n acc`: `io.ReadFull(buf)` still
    needs n+1 bytes, `acc` holds the bytes read so far, newest first. `pbody`: the same
    for a PING payload read into `pong[4:]` (the three length bytes are kept for the answer).
    `echo n` (only when the source answers a PING with `io.CopyN(conn, conn)`, i.e.
    `Gen.pongAfterPayload = false`) / `discard n`: `io.CopyN` still has n+1 bytes to go. -/
inductive RState where
  | hdr0
  | hdr1 (h0 : UInt8)
  | hdr2 (h0 l0 : UInt8)
  | hdr3 (h0 l0 l1 : UInt8)
  | body (more : Nat) (acc : List UInt8)
  | pbody (l0 l1 l2 : UInt8) (more : Nat) (acc : List UInt8)
  | echo (more : Nat)
  | discard (more : Nat)
  | closed (why : CloseReason)
  deriving Repr, DecidableEq

/-- What the reader does that is visible outside. -/
inductive Ev (M : Type) where
  /-- `rs.rd <- msg` -/
  | deliver (m : M)
  /-- `rs.rd <- nil` (possible only when the type switch has no default clause) -/
  | deliverNil
  /-- `rs.conn.Write(bs)` by the reader goroutine (PONG header, echoed payload) -/
  | wrote (bs : List UInt8)
  deriving Repr, DecidableEq

section
variable {M : Type} (de : List UInt8 → Option M)

/-- A complete message payload has been read. -/
def onPayload (payload : List UInt8) : RState × List (Ev M) :=
  match de payload with
  | some m => (.hdr0, [.deliver m])
  | none => if Gen.deserializeErrorSkips then (.hdr0, []) else (.closed .undeserialisable, [])

/-- A PING header announcing n payload bytes has been read. -/
def onPing (l0 l1 l2 : UInt8) (n : Nat) : RState × List (Ev M) :=
  match Gen.pongAfterPayload with
  | true =>  -- read the payload, then ONE write of the whole PONG frame
    if n = 0 then (.hdr0, [.wrote [Gen.pongType, l0, l1, l2]])
    else (.pbody l0 l1 l2 (n - 1) [], [])
  | false => -- PONG header at once, then the payload copied back as it arrives
    (if n = 0 then .hdr0 else .echo (n - 1), [.wrote [Gen.pongType, l0, l1, l2]])

/-- The four header bytes have been read. -/
def onHeader (recvLimit : Int) (h0 l0 l1 l2 : UInt8) : RState × List (Ev M) :=
  let length := Gen.bytesToInt [l0, l1, l2]
  if Gen.recvOversize length recvLimit then (.closed .oversize, [])
  else
    match Gen.readerCase (Gen.frameType h0) with
    | .msg => if length.toNat = 0 then onPayload de [] else (.body (length.toNat - 1) [], [])
    | .ping => onPing l0 l1 l2 length.toNat
    | .pong => (if length.toNat = 0 then .hdr0 else .discard (length.toNat - 1), [])
    | .reserved => (.closed .reservedType, [])
    | .fallthroughNil => (.hdr0, [.deliverNil])

/-- One more byte arrives. -/
def step (recvLimit : Int) : RState → UInt8 → RState × List (Ev M)
  | .hdr0, b => (.hdr1 b, [])
  | .hdr1 h0, b => (.hdr2 h0 b, [])
  | .hdr2 h0 l0, b => (.hdr3 h0 l0 b, [])
  | .hdr3 h0 l0 l1, b => onHeader de recvLimit h0 l0 l1 b
  | .body 0 acc, b => onPayload de (b :: acc).reverse
  | .body (n + 1) acc, b => (.body n (b :: acc), [])
  | .pbody l0 l1 l2 0 acc, b => (.hdr0, [.wrote (Gen.pongType :: l0 :: l1 :: l2 :: (b :: acc).reverse)])
  | .pbody l0 l1 l2 (n + 1) acc, b => (.pbody l0 l1 l2 n (b :: acc), [])
  | .echo 0, b => (.hdr0, [.wrote [b]])
  | .echo (n + 1), b => (.echo n, [.wrote [b]])
  | .discard 0, _ => (.hdr0, [])
  | .discard (n + 1), _ => (.discard n, [])
  | .closed why, _ => (.closed why, [])

/-- The reader fed a chunk of bytes from state `s`: events in order, final state. -/
def run (recvLimit : Int) : RState → List UInt8 → List (Ev M) × RState
  | s, [] => ([], s)
  | s, b :: bs =>
    let r := step de recvLimit s b
    let t := run recvLimit r.1 bs
    (r.2 ++ t.1, t.2)

/-- The reader fed the stream chunk by chunk (one chunk per successful `Read`), events
    concatenated. -/
def runChunks (recvLimit : Int) : RState → List (List UInt8) → List (Ev M) × RState
  | s, [] => ([], s)
  | s, c :: cs =>
    let r := run de recvLimit s c
    let t := runChunks recvLimit r.2 cs
    (r.1 ++ t.1, t.2)

/-- The reader over the whole incoming stream of a fresh connection. -/
def decodeStream (recvLimit : Int) (bytes : List UInt8) : List (Ev M) × RState :=
  run de recvLimit .hdr0 bytes

/-! ### end of stream

  transport/rawsocketpeer.go, `recvHandler`.  Every read of the goroutine is an `io.ReadFull`
  (header :269, MSG body :299, PING payload :317) or an `io.CopyN` (PONG payload :329); each
  returns an error when the stream ends before it has all its bytes.  In every case the
  goroutine RETURNS (the deferred `close(rs.rd)` runs), having handed over or written NOTHING
  for the frame it was reading; what was read of that frame is dropped.  A zero-length body is
  not a read at all (`io.ReadFull` into an empty slice and `io.CopyN(…, 0)` return at once),
  which is why there is no `body`/`pbody`/`discard` state with nothing to come.

  What differs is what else happens on the way out (`readErrAction`), and the line is NOT
  "between frames" vs "inside a frame" but "header read" vs "body read":

  * header read fails (:269-286), whether no byte (`io.EOF`) or 1..3 bytes
    (`io.ErrUnexpectedEOF`) had come — the error value is not looked at —: nothing is logged;
    unless the peer was closed explicitly (`<-rs.closed` ready, not modelled), the reader
    cancels the sender goroutine, WAITS for it (`<-rs.writerDone`; the sender first writes what
    is queued, `afterCancel`), and then closes the connection;
  * MSG body / PING payload / PONG payload read fails (:299-304, :317-321, :329-334): one log
    line ("Error reading message:" / "Error reading PING:" / "Error reading PONG:"), the
    connection is closed at once, the sender goroutine is NOT cancelled (it runs on, its
    writes failing, until the router calls `Close` after seeing `rs.rd` closed).
-/

/-- What arrives at the reader goroutine: one more byte, or the end of the stream (the read
    it is blocked in returns an error). -/
inductive In where
  | byte (b : UInt8)
  | eof
  deriving Repr, DecidableEq

/-- The reader has read part of a frame and is waiting for the rest. -/
def RState.inFrame : RState → Bool
  | .hdr0 => false
  | .closed _ => false
  | _ => true

/-- The reader is blocked in `io.ReadFull(header)` (no byte of the next frame, or 1..3 of its
    header bytes, have come). -/
def RState.inHeader : RState → Bool
  | .hdr0 | .hdr1 _ | .hdr2 _ _ | .hdr3 _ _ _ => true
  | _ => false

/-- The read the reader is blocked in fails: the goroutine returns. A reader that had closed
    the connection itself has returned already and sees nothing. -/
def atEOF : RState → RState
  | .closed why => .closed why
  | .hdr0 => .closed (.eof false)
  | _ => .closed (.eof true)

/-- What `recvHandler` does, besides returning, when a read fails (see above). -/
structure ReadErrAction where
  /-- the text the log line starts with; `none`: nothing is logged -/
  logs : Option String
  /-- `rs.cancelSender(); <-rs.writerDone` before the connection is closed -/
  cancelsSender : Bool
  /-- `rs.conn.Close()` -/
  closesConn : Bool
  deriving Repr, DecidableEq

/-- HAND-WRITTEN from rawsocketpeer.go:269-286, :299-304, :317-321, :329-334 (not yet a
    generated fact; tied by the `eof` section of the frames family, which captures the log, looks
    at `rs.writerDone` and at the connection).  `none`: the goroutine is not in a read.  The
    `echo` state exists only for the former shape of the PING answer
    (`Gen.pongAfterPayload = false`), where the copy loop's error was "Error responding to PING:". -/
def readErrAction : RState → Option ReadErrAction
  | .closed _ => none
  | .hdr0 | .hdr1 _ | .hdr2 _ _ | .hdr3 _ _ _ => some ⟨none, true, true⟩
  | .body _ _ => some ⟨some "Error reading message:", false, true⟩
  | .pbody _ _ _ _ _ => some ⟨some "Error reading PING:", false, true⟩
  | .echo _ => some ⟨some "Error responding to PING:", false, true⟩
  | .discard _ => some ⟨some "Error reading PONG:", false, true⟩

/-- One more input. End of stream produces no event, in any state. -/
def stepIn (recvLimit : Int) (s : RState) : In → RState × List (Ev M)
  | .byte b => step de recvLimit s b
  | .eof => (atEOF s, [])

/-- The reader fed a sequence of inputs from state `s`. -/
def runIn (recvLimit : Int) : RState → List In → List (Ev M) × RState
  | s, [] => ([], s)
  | s, i :: is =>
    let r := stepIn de recvLimit s i
    let t := runIn recvLimit r.1 is
    (r.2 ++ t.1, t.2)

/-- The reader over the whole incoming stream of a fresh connection, the stream ENDING after
    `bytes` (the peer closed its side, or the connection broke). -/
def decodeStreamEOF (recvLimit : Int) (bytes : List UInt8) : List (Ev M) × RState :=
  runIn de recvLimit .hdr0 (bytes.map In.byte ++ [In.eof])

end

/-- The messages handed to the router, in order. -/
def delivered {M : Type} : List (Ev M) → List M
  | [] => []
  | .deliver m :: es => m :: delivered es
  | _ :: es => delivered es

/-- The bytes the reader goroutine wrote back, in order. -/
def written {M : Type} : List (Ev M) → List UInt8
  | [] => []
  | .wrote bs :: es => bs ++ written es
  | _ :: es => written es

/-- Number of nil messages handed to the router. -/
def nilCount {M : Type} : List (Ev M) → Nat
  | [] => 0
  | .deliverNil :: es => nilCount es + 1
  | _ :: es => nilCount es

def RState.isClosed : RState → Bool
  | .closed _ => true
  | _ => false

end Nexus.Frame
