/-
  C15 × C14 (audit D, item b1): the stream theorem of `Nexus.Props.C15` instantiated with the
  serializer models of `Nexus.Props.C14`.

  `Nexus.C15.stream` assumes an exact codec round trip `de (ser m) = some m`, which no theorem of
  C14 provides: `C14_wire_roundtrip` gives `Deserialize(Serialize(m)) = norm m`, for well-typed
  messages whose emitted list the format can carry.  `Nexus.C15.stream_norm_on` is the stream
  theorem under that weaker hypothesis; here it is discharged:

  * `wireSer fmt`  — `Serialize`: `msgToList`, then the format's `encode` (`none` = the Go
    serializer returns an error: the list is outside what the format model carries — MessagePack /
    CBOR: `validB`, JSON: `Json.okB`, which is used OPAQUELY here, through `Json.encode` and the
    hypothesis of `C14_wire_roundtrip` only);
  * `wireDe fmt`   — `Deserialize`: `Wire.deserialize`, `none` for a codec error or an
    `error` / `panic` verdict of the repo's code (the reader logs and skips: C15's
    `deserializeErrorSkips`);
  * `wire_codec_norm`   — the hypothesis of `stream_norm_on`;
  * `stream_codec`      — the stream theorem for real messages and the three formats;
  * `connected_streams_codec` — both directions of a negotiated connection.

  This file imports both Props modules; `Nexus/Props/C15.lean` cites it and does not import it
  (so that C15 builds without the codec development).
-/
import Nexus.Props.C14
import Nexus.Props.C15

namespace Nexus.C15
open Nexus Nexus.Frame Nexus.Codec

/-- `Serializer.Serialize(msg)` of format `fmt` as a partial function to bytes. -/
def wireSer (fmt : Format) (m : Msg) : Option (List UInt8) :=
  match msgToList m with
  | .ok l => Wire.encode fmt (.list l)
  | _ => none

/-- `Serializer.Deserialize(bytes)` of format `fmt`: `none` when the reader gets an error (or the
    model says panic) and therefore skips the frame. -/
def wireDe (fmt : Format) (p : List UInt8) : Option Msg :=
  match Wire.deserialize fmt p with
  | .ok (.ok m) => some m
  | _ => none

/-- The side condition under which the format model carries a list (JSON: opaque `Json.okB`). -/
def carries : Format → List CVal → Prop
  | .msgpack, l => validB MsgPack.maxLen (.list l) = true
  | .cbor, l => validB CBOR.maxLen (.list l) = true
  | .json, l => Json.okB (.list l) = true

/-- `wireSer` yields bytes exactly for the messages whose list is carried, and then the
    format's encoding of that list. -/
theorem wireSer_some_iff (fmt : Format) (m : Msg) (p : List UInt8) :
    wireSer fmt m = some p ↔
      ∃ l, msgToList m = .ok l ∧ carries fmt l ∧
        p = (match fmt with
             | .msgpack => MsgPack.enc (.list l)
             | .cbor => CBOR.enc (.list l)
             | .json => Json.enc (.list l)) := by
  unfold wireSer
  cases hl : msgToList m with
  | ok l =>
    cases fmt
    · -- json
      simp only [Wire.encode, Json.encode, carries]
      by_cases hc : Json.okB (.list l) = true
      · rw [if_pos hc]
        constructor
        · intro h; exact ⟨l, rfl, hc, (Option.some.inj h).symm⟩
        · rintro ⟨l', hl', _, rfl⟩; cases hl'; rfl
      · rw [if_neg hc]
        constructor
        · intro h; cases h
        · rintro ⟨l', hl', hc', _⟩; cases hl'; exact absurd hc' hc
    · -- msgpack
      simp only [Wire.encode, MsgPack.encode, carries]
      by_cases hc : validB MsgPack.maxLen (.list l) = true
      · rw [if_pos hc]
        constructor
        · intro h; exact ⟨l, rfl, hc, (Option.some.inj h).symm⟩
        · rintro ⟨l', hl', _, rfl⟩; cases hl'; rfl
      · rw [if_neg hc]
        constructor
        · intro h; cases h
        · rintro ⟨l', hl', hc', _⟩; cases hl'; exact absurd hc' hc
    · -- cbor
      simp only [Wire.encode, CBOR.encode, carries]
      by_cases hc : validB CBOR.maxLen (.list l) = true
      · rw [if_pos hc]
        constructor
        · intro h; exact ⟨l, rfl, hc, (Option.some.inj h).symm⟩
        · rintro ⟨l', hl', _, rfl⟩; cases hl'; rfl
      · rw [if_neg hc]
        constructor
        · intro h; cases h
        · rintro ⟨l', hl', hc', _⟩; cases hl'; exact absurd hc' hc
  | error e =>
    constructor
    · intro h; cases h
    · rintro ⟨l', hl', _⟩; cases hl'
  | panic s =>
    constructor
    · intro h; cases h
    · rintro ⟨l', hl', _⟩; cases hl'

/-- THE CODEC HYPOTHESIS OF `stream_norm_on`, from C14: for every well-typed message and each
    of the three formats, whatever `Serialize` yields, `Deserialize` maps to `C14`'s `norm m`. -/
theorem wire_codec_norm (fmt : Format) (m : Msg) (h : C14.WellTyped m) (p : List UInt8)
    (hs : wireSer fmt m = some p) : wireDe fmt p = some (norm m) := by
  obtain ⟨l, hl, hmp, hcb, hjs⟩ := C14.C14_wire_roundtrip m h
  obtain ⟨l', hl', hc, hp⟩ := (wireSer_some_iff fmt m p).mp hs
  rw [hl] at hl'
  cases hl'
  subst hp
  unfold wireDe
  cases fmt
  · rw [hjs hc]
  · rw [hmp hc]
  · rw [hcb hc]

/-- Audit b1, THE INSTANTIATION.  For each of the three serializers, every queue of well-typed
    messages and all limits with sendLimit ≤ recvLimit: the reader hands over `norm m` for exactly
    the messages that serialise (their list is carried by the format) and fit the send limit, in
    order, and ends idle between frames.  `norm` is C14's normalisation (`C14_norm_fields`: nil
    and omitted trailing fields come back as `NewMessage`'s initial values). -/
theorem stream_codec (fmt : Format) (sl rl : Int) (hsl : sl ≤ rl) (msgs : List Msg)
    (hwt : ∀ m, m ∈ msgs → C14.WellTyped m) :
    decodeStream (wireDe fmt) rl (sendAll (wireSer fmt) sl msgs) =
      ((msgs.filter (arrives (wireSer fmt) sl)).map (fun m => Ev.deliver (norm m)), .hdr0) :=
  stream_norm_on (wireSer fmt) (wireDe fmt) norm sl rl hsl msgs
    (fun m hm p hs => wire_codec_norm fmt m (hwt m hm) p hs)

/-- Audit a5 + b1: both directions of a negotiated connection with the real codecs. -/
theorem connected_streams_codec (fmt : Format) (p : UInt8) (rc rs : Int) (c s : PeerCfg)
    (rep : List UInt8) (h : connect p rc rs = (.ok c, ⟨some rep, .ok s⟩)) (up down : List Msg)
    (hup : ∀ m, m ∈ up → C14.WellTyped m) (hdown : ∀ m, m ∈ down → C14.WellTyped m) :
    decodeStream (wireDe fmt) s.recvLimit (sendAll (wireSer fmt) c.sendLimit up) =
        ((up.filter (arrives (wireSer fmt) c.sendLimit)).map (fun m => Ev.deliver (norm m)), .hdr0) ∧
      decodeStream (wireDe fmt) c.recvLimit (sendAll (wireSer fmt) s.sendLimit down) =
        ((down.filter (arrives (wireSer fmt) s.sendLimit)).map (fun m => Ev.deliver (norm m)), .hdr0) :=
  connected_streams_norm (wireSer fmt) (wireDe fmt) norm p rc rs c s rep h up down
    (fun m hm q hs => wire_codec_norm fmt m (hup m hm) q hs)
    (fun m hm q hs => wire_codec_norm fmt m (hdown m hm) q hs)

/-! ### non-vacuity: a well-typed message that serialises, fits and is delivered -/

/-- An EVENT [36, 1, 2, {}, nil, {"a": 1}] (kwargs without args keeps its position). -/
def exampleEvent : Msg :=
  { schema := (Gen.structs.filter (·.code == 36)).head!,
    fields := [.int 1, .int 2, .dict [], .null, .dict [([97], .int 1)]] }

theorem exampleEvent_wellTyped : C14.WellTyped exampleEvent := by
  refine ⟨by decide, ?_⟩
  have hk : exampleEvent.schema.fields.map (·.kind) =
      [.uint64, .uint64, .mapStringAny, .sliceAny, .mapStringAny] := by decide
  generalize hf : exampleEvent.schema.fields = fs at hk
  match fs, hk with
  | [f1, f2, f3, f4, f5], hk =>
    simp only [List.map_cons, List.map_nil, List.cons.injEq, and_true] at hk
    obtain ⟨h1, h2, h3, h4, h5⟩ := hk
    simp only [exampleEvent, TypedFields, h1, h2, h3, h4, h5, Typed, two64]
    decide

example : wireSer .msgpack exampleEvent = some [150, 36, 1, 2, 128, 192, 129, 161, 97, 1] := by decide
example : wireSer .cbor exampleEvent = some [134, 24, 36, 1, 2, 160, 246, 161, 97, 97, 1] := by decide
/-- `[36,1,2,{},null,{"a":1}]` -/
example : wireSer .json exampleEvent =
    some [91, 51, 54, 44, 49, 44, 50, 44, 123, 125, 44, 110, 117, 108, 108, 44, 123, 34, 97, 34, 58, 49, 125, 93] := by
  decide

/-- The hypotheses of `stream_codec` are satisfiable and its conclusion is not empty: with send
    limit 16 the MessagePack (10 bytes) and CBOR (11 bytes) forms are delivered (as `norm` of the
    message), the JSON form (24 bytes) is dropped by the sender; with 512 all three arrive. -/
example : decodeStream (wireDe .msgpack) 512 (sendAll (wireSer .msgpack) 16 [exampleEvent, exampleEvent]) =
    ([.deliver (norm exampleEvent), .deliver (norm exampleEvent)], .hdr0) := by
  rw [stream_codec .msgpack 16 512 (by decide) _
    (by intro m hm; simp only [List.mem_cons, List.not_mem_nil, or_false, or_self] at hm; subst hm; exact exampleEvent_wellTyped)]
  have h : arrives (wireSer .msgpack) 16 exampleEvent = true := by decide
  simp [List.filter, h]
example : decodeStream (wireDe .json) 512 (sendAll (wireSer .json) 16 [exampleEvent]) = ([], .hdr0) := by
  rw [stream_codec .json 16 512 (by decide) _
    (by intro m hm; simp only [List.mem_cons, List.not_mem_nil, or_false] at hm; subst hm; exact exampleEvent_wellTyped)]
  have h : arrives (wireSer .json) 16 exampleEvent = false := by decide
  simp [List.filter, h]
example : arrives (wireSer .json) 512 exampleEvent = true ∧ arrives (wireSer .cbor) 16 exampleEvent = true := by
  decide

end Nexus.C15
