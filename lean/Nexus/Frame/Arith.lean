/-
  Arithmetic facts about the GENERATED pure functions (`Nexus.Gen.byteToLength`,
  `fitRecvLimit`, `intToBytes`, `bytesToInt`) and the Go-semantics helpers they
  are written in.  Helper lemmas for `Nexus.Props.C15`.
-/
import Nexus.Gen.Frame

namespace Nexus.Frame
open Nexus

theorem wrapInt_id {x : Int} (h1 : -(2 ^ 63) ≤ x) (h2 : x < 2 ^ 63) : Go.wrapInt x = x := by
  unfold Go.wrapInt; omega

theorem andInt_255 (n : Nat) : Go.andInt (Int.ofNat n) 255 = Int.ofNat (n % 256) := by
  show Go.andInt (Int.ofNat n) (Int.ofNat 255) = _
  unfold Go.andInt
  simp only
  have := Nat.and_two_pow_sub_one_eq_mod n 8
  simp at this
  rw [this]

theorem shrInt_ofNat (n k : Nat) : Go.shrInt (Int.ofNat n) k = Int.ofNat (n / 2 ^ k) := by
  unfold Go.shrInt
  show (Int.ofNat n) >>> k = _
  rw [Int.shiftRight_eq_div_pow]
  simp [Int.ofNat_eq_natCast]

theorem byteOfInt_ofNat (n : Nat) (h : n < 256) : (Go.byteOfInt (Int.ofNat n)).toNat = n := by
  unfold Go.byteOfInt
  simp only [Int.ofNat_eq_natCast]
  have : ((n : Int) % 256).toNat = n := by omega
  rw [this]
  simp [UInt8.toNat_ofNat']
  omega

/-- The three bytes `intToBytes` produces for a non-negative int. -/
theorem intToBytes_ofNat (n : Nat) :
    ∃ a b c : UInt8, Gen.intToBytes (Int.ofNat n) = [a, b, c] ∧
      a.toNat = n / 65536 % 256 ∧ b.toNat = n / 256 % 256 ∧ c.toNat = n % 256 := by
  refine ⟨_, _, _, rfl, ?_, ?_, ?_⟩
  · rw [shrInt_ofNat, andInt_255, byteOfInt_ofNat _ (Nat.mod_lt _ (by decide))]
  · rw [shrInt_ofNat, andInt_255, byteOfInt_ofNat _ (Nat.mod_lt _ (by decide))]
  · rw [andInt_255, byteOfInt_ofNat _ (Nat.mod_lt _ (by decide))]

theorem or_shl (a b i : Nat) (hb : b < 2 ^ i) : a <<< i ||| b = a * 2 ^ i + b := by
  rw [← Nat.shiftLeft_add_eq_or_of_lt hb, Nat.shiftLeft_eq]

theorem lenInt_sub_one_three {α} (a b c : α) : Go.subInt (Go.lenInt [a, b, c]) 1 = 2 := by
  show Go.wrapInt ((3 : Int) - 1) = 2
  unfold Go.wrapInt
  omega

theorem forDown_two {σ} (st : σ) (body : Nat → σ → σ) :
    Go.forDown 2 st body = body 0 (body 1 (body 2 st)) := by
  unfold Go.forDown
  simp [Go.forDownNat]

theorem bytesToInt_three (a b c : UInt8) :
    Gen.bytesToInt [a, b, c] = Int.ofNat (a.toNat * 65536 + b.toNat * 256 + c.toNat) := by
  have ha := a.toNat_lt; have hb := b.toNat_lt; have hc := c.toNat_lt
  unfold Gen.bytesToInt
  simp only [lenInt_sub_one_three, forDown_two, List.getD_cons_zero, List.getD_cons_succ]
  have h0 : (UInt64.toNat 0) = 0 := rfl
  have h8 : ((0:UInt64) + 8).toNat = 8 := by decide
  have h16 : ((0:UInt64) + 8 + 8).toNat = 16 := by decide
  rw [h0, h8, h16]
  have key : (0 ||| Go.shlU64 (Go.uintOfByte c) 0 ||| Go.shlU64 (Go.uintOfByte b) 8 |||
      Go.shlU64 (Go.uintOfByte a) 16).toNat = a.toNat * 65536 + b.toNat * 256 + c.toNat := by
    simp [Go.shlU64, Go.uintOfByte, UInt64.toNat_or, UInt64.toNat_shiftLeft, UInt8.toNat_toUInt64]
    have e1 : b.toNat <<< 8 % 18446744073709551616 = b.toNat <<< 8 := by
      rw [Nat.shiftLeft_eq]; omega
    have e2 : a.toNat <<< 16 % 18446744073709551616 = a.toNat <<< 16 := by
      rw [Nat.shiftLeft_eq]; omega
    rw [e1, e2, Nat.or_comm c.toNat, or_shl _ _ _ hc, Nat.or_comm, or_shl _ _ _ (by omega)]
    omega
  unfold Go.intOfUint
  rw [key, wrapInt_id] <;> simp only [Int.ofNat_eq_natCast] <;> omega
/-- `bytesToInt (intToBytes n) = n` below 2^24. -/
theorem bytesToInt_intToBytes (n : Nat) (h : n < 2 ^ 24) :
    Gen.bytesToInt (Gen.intToBytes (Int.ofNat n)) = Int.ofNat n := by
  obtain ⟨a, b, c, e, ha, hb, hc⟩ := intToBytes_ofNat n
  rw [e, bytesToInt_three, ha, hb, hc]
  congr 1
  omega

theorem bytesToInt_three_range (a b c : UInt8) :
    0 ≤ Gen.bytesToInt [a, b, c] ∧ Gen.bytesToInt [a, b, c] < 2 ^ 24 := by
  have ha := a.toNat_lt; have hb := b.toNat_lt; have hc := c.toNat_lt
  rw [bytesToInt_three]
  simp only [Int.ofNat_eq_natCast]
  omega

theorem byteToLength_small (b : UInt8) (h : b.toNat ≤ 15) :
    Gen.byteToLength b = ((2 ^ (b.toNat + 9) : Nat) : Int) := by
  unfold Gen.byteToLength Go.shlInt
  have e : (b + 9).toNat = b.toNat + 9 := by
    rw [UInt8.toNat_add]; simp; omega
  rw [e]
  have hp : 2 ^ (b.toNat + 9) ≤ 2 ^ 24 := Nat.pow_le_pow_right (by decide) (by omega)
  have hp' : (2:Int) ^ (b.toNat + 9) ≤ 2 ^ 24 := by exact_mod_cast hp
  have hpos : (0:Int) < 2 ^ (b.toNat + 9) := by
    have : 0 < 2 ^ (b.toNat + 9) := Nat.pow_pos (by decide)
    exact_mod_cast this
  have hk : ((1:Int) * 2 ^ (b.toNat + 9)) = ((2 ^ (b.toNat + 9) : Nat) : Int) := by simp
  rw [if_neg (by omega), hk, wrapInt_id] <;> omega

/-- First-hit search over `0 .. n-1`. -/
theorem findSome_range {q : Nat → Bool} {g : Nat → UInt8} (n : Nat) :
    match (List.range n).findSome? (fun i => if q i then some (g i) else none) with
    | some b => ∃ i, i < n ∧ b = g i ∧ q i = true ∧ ∀ j, j < i → q j = false
    | none => ∀ j, j < n → q j = false := by
  induction n with
  | zero => simp
  | succ n ih =>
    rw [List.range_succ, List.findSome?_append]
    split at ih
    · next b hb =>
      rw [hb]
      obtain ⟨i, hi, e, hq, hj⟩ := ih
      exact ⟨i, by omega, e, hq, hj⟩
    · next hb =>
      rw [hb]
      simp only [Option.none_or, List.findSome?_cons, List.findSome?_nil]
      cases hq : q n with
      | true =>
        simp
        exact ⟨n, by omega, rfl, hq, ih⟩
      | false =>
        simp
        intro j hj
        by_cases h : j = n
        · subst h; exact hq
        · exact ih j (by omega)


theorem ofNat_toNat_lt {i : Nat} (h : i < 256) : (UInt8.ofNat i).toNat = i := by
  simp [UInt8.toNat_ofNat']; omega

/-- `fitRecvLimit r` is 15 for r ≤ 0, and otherwise the least code b in 0..14 with
    2^(b+9) ≥ r, or 15 when there is none. -/
theorem fit_spec (r : Int) :
    (r ≤ 0 → Gen.fitRecvLimit r = 15) ∧
    (0 < r → (Gen.fitRecvLimit r).toNat ≤ 15 ∧
      ((Gen.fitRecvLimit r).toNat < 15 → r ≤ ((2 ^ ((Gen.fitRecvLimit r).toNat + 9) : Nat) : Int)) ∧
      ∀ j, j < (Gen.fitRecvLimit r).toNat → ((2 ^ (j + 9) : Nat) : Int) < r) := by
  constructor
  · intro h
    unfold Gen.fitRecvLimit
    rw [if_neg (by simp; omega)]
  · intro h
    have key := findSome_range (q := fun i => decide (Gen.byteToLength (UInt8.ofNat i) ≥ r)) (g := UInt8.ofNat) 15
    have hf : Gen.fitRecvLimit r =
        match (List.range 15).findSome? (fun i => if decide (Gen.byteToLength (UInt8.ofNat i) ≥ r) = true then some (UInt8.ofNat i) else none) with
        | some b => b
        | none => 15 := by
      unfold Gen.fitRecvLimit Go.rangeByte
      rw [if_pos (by simp; omega)]
      have e15 : (15:UInt8).toNat = 15 := rfl
      rw [e15]
      cases List.findSome? (fun i => if decide (Gen.byteToLength (UInt8.ofNat i) ≥ r) = true then some (UInt8.ofNat i) else none) (List.range 15) <;> rfl
    rw [hf]
    split at key
    · next b hb =>
      rw [hb]
      obtain ⟨i, hi, e, hq, hj⟩ := key
      subst e
      have hq' := of_decide_eq_true hq
      rw [byteToLength_small _ (by rw [ofNat_toNat_lt (by omega)]; omega)] at hq'
      rw [ofNat_toNat_lt (by omega)] at hq' ⊢
      refine ⟨by omega, fun _ => hq', ?_⟩
      intro j hji
      have := of_decide_eq_false (hj j hji)
      rw [byteToLength_small _ (by rw [ofNat_toNat_lt (by omega)]; omega), ofNat_toNat_lt (by omega)] at this
      omega
    · next hb =>
      rw [hb]
      refine ⟨by decide, fun h => absurd h (by decide), ?_⟩
      intro j hj15
      have hj15 : j < 15 := hj15
      have := of_decide_eq_false (key j hj15)
      rw [byteToLength_small _ (by rw [ofNat_toNat_lt (by omega)]; omega), ofNat_toNat_lt (by omega)] at this
      omega

theorem and15_toNat (x : UInt8) : (x &&& 15).toNat = x.toNat % 16 := by
  rw [UInt8.toNat_and]
  exact Nat.and_two_pow_sub_one_eq_mod x.toNat 4

theorem shrU8_4_toNat (x : UInt8) : (Go.shrU8 x 4).toNat = x.toNat / 16 := by
  unfold Go.shrU8
  rw [if_neg (by decide), UInt8.toNat_shiftRight]
  have : (UInt8.ofNat 4).toNat % 8 = 4 := by decide
  rw [this, Nat.shiftRight_eq_div_pow]

theorem shlU8_4_or_toNat (m s : UInt8) (hm : m.toNat < 16) (hs : s.toNat < 16) :
    (Go.shlU8 m 4 ||| s).toNat = m.toNat * 16 + s.toNat := by
  unfold Go.shlU8
  rw [if_neg (by decide), UInt8.toNat_or, UInt8.toNat_shiftLeft]
  have : (UInt8.ofNat 4).toNat % 8 = 4 := by decide
  rw [this]
  have e : m.toNat <<< 4 % 2 ^ 8 = m.toNat <<< 4 := by rw [Nat.shiftLeft_eq]; omega
  rw [e, or_shl _ _ _ (by omega)]

end Nexus.Frame
