/-
  Structural lemmas about the reader machine of `Nexus.Frame.Stream`
  (helper lemmas for `Nexus.Props.C15`).
-/
import Nexus.Frame.Arith
import Nexus.Frame.Stream
namespace Nexus.Frame
open Nexus

section
variable {M : Type} (de : List UInt8 → Option M) (rl : Int)

theorem run_append (s : RState) (a b : List UInt8) :
    run de rl s (a ++ b) =
      ((run de rl s a).1 ++ (run de rl (run de rl s a).2 b).1, (run de rl (run de rl s a).2 b).2) := by
  induction a generalizing s with
  | nil => simp [run]
  | cons x xs ih =>
    simp only [List.cons_append, run]
    rw [ih]
    simp [List.append_assoc]

theorem run_closed (why : CloseReason) (bs : List UInt8) :
    run de rl (.closed why) bs = ([], .closed why) := by
  induction bs with
  | nil => rfl
  | cons x xs ih => simp [run, step, ih]

theorem run_cons (s : RState) (b : UInt8) (bs : List UInt8) :
    run de rl s (b :: bs) = ((step de rl s b).2 ++ (run de rl (step de rl s b).1 bs).1, (run de rl (step de rl s b).1 bs).2) := rfl
theorem step_hdr0 (b : UInt8) : step de rl .hdr0 b = (.hdr1 b, []) := rfl
theorem step_hdr1 (a b : UInt8) : step de rl (.hdr1 a) b = (.hdr2 a b, []) := rfl
theorem step_hdr2 (a b c : UInt8) : step de rl (.hdr2 a b) c = (.hdr3 a b c, []) := rfl
theorem step_hdr3 (a b c d : UInt8) : step de rl (.hdr3 a b c) d = onHeader de rl a b c d := rfl

theorem run_hdr0 (b : UInt8) (rest : List UInt8) : run de rl .hdr0 (b :: rest) = run de rl (.hdr1 b) rest := by
  rw [run_cons, step_hdr0]; simp only [List.nil_append]
theorem run_hdr1 (a b : UInt8) (rest : List UInt8) : run de rl (.hdr1 a) (b :: rest) = run de rl (.hdr2 a b) rest := by
  rw [run_cons, step_hdr1]; simp only [List.nil_append]
theorem run_hdr2 (a b c : UInt8) (rest : List UInt8) : run de rl (.hdr2 a b) (c :: rest) = run de rl (.hdr3 a b c) rest := by
  rw [run_cons, step_hdr2]; simp only [List.nil_append]
theorem run_hdr3 (h0 l0 l1 l2 : UInt8) (rest : List UInt8) :
    run de rl (.hdr3 h0 l0 l1) (l2 :: rest) =
      ((onHeader de rl h0 l0 l1 l2).2 ++ (run de rl (onHeader de rl h0 l0 l1 l2).1 rest).1,
       (run de rl (onHeader de rl h0 l0 l1 l2).1 rest).2) := by
  rw [run_cons, step_hdr3]
theorem run_header (h0 l0 l1 l2 : UInt8) (rest : List UInt8) :
    run de rl .hdr0 (h0 :: l0 :: l1 :: l2 :: rest) =
      ((onHeader de rl h0 l0 l1 l2).2 ++ (run de rl (onHeader de rl h0 l0 l1 l2).1 rest).1,
       (run de rl (onHeader de rl h0 l0 l1 l2).1 rest).2) := by
  rw [run_hdr0, run_hdr1, run_hdr2, run_hdr3]

/-- A complete body: the accumulated payload is handed to `onPayload`. -/
theorem run_body (p : List UInt8) : ∀ (n : Nat) (acc rest : List UInt8), p.length = n + 1 →
    run de rl (.body n acc) (p ++ rest) =
      ((onPayload de (acc.reverse ++ p)).2 ++ (run de rl (onPayload de (acc.reverse ++ p)).1 rest).1,
       (run de rl (onPayload de (acc.reverse ++ p)).1 rest).2) := by
  induction p with
  | nil => intro n acc rest h; simp at h
  | cons x xs ih =>
    intro n acc rest h
    cases n with
    | zero =>
      have : xs = [] := by
        cases xs with
        | nil => rfl
        | cons _ _ => simp at h
      subst this
      simp [run, step]
    | succ n =>
      simp only [List.cons_append, run, step]
      rw [ih n (x :: acc) rest (by simpa using h)]
      simp

/-- A truncated body: the reader keeps waiting. -/
theorem run_body_short (p : List UInt8) : ∀ (n : Nat) (acc : List UInt8), p.length ≤ n →
    run de rl (.body n acc) p = ([], .body (n - p.length) (p.reverse ++ acc)) := by
  induction p with
  | nil => intro n acc _; simp [run]
  | cons x xs ih =>
    intro n acc h
    cases n with
    | zero => simp at h
    | succ n =>
      simp only [run, step]
      rw [ih n (x :: acc) (by simpa using h)]
      simp

theorem run_echo (p : List UInt8) : ∀ (n : Nat) (rest : List UInt8), p.length = n + 1 →
    run de rl (.echo n) (p ++ rest) =
      (p.map (fun b => Ev.wrote [b]) ++ (run de rl .hdr0 rest).1, (run de rl .hdr0 rest).2) := by
  induction p with
  | nil => intro n rest h; simp at h
  | cons x xs ih =>
    intro n rest h
    cases n with
    | zero =>
      have : xs = [] := by
        cases xs with
        | nil => rfl
        | cons _ _ => simp at h
      subst this
      simp [run, step]
    | succ n =>
      simp only [List.cons_append, run, step]
      rw [ih n rest (by simpa using h)]
      simp

theorem run_echo_short (p : List UInt8) : ∀ (n : Nat), p.length ≤ n →
    run de rl (.echo n) p = (p.map (fun b => Ev.wrote [b]), .echo (n - p.length)) := by
  induction p with
  | nil => intro n _; simp [run]
  | cons x xs ih =>
    intro n h
    cases n with
    | zero => simp at h
    | succ n =>
      simp only [run, step]
      rw [ih n (by simpa using h)]
      simp

/-- A complete PING payload: one write of the whole PONG frame. -/
theorem run_pbody (l0 l1 l2 : UInt8) (p : List UInt8) : ∀ (n : Nat) (acc rest : List UInt8), p.length = n + 1 →
    run de rl (.pbody l0 l1 l2 n acc) (p ++ rest) =
      (Ev.wrote (Gen.pongType :: l0 :: l1 :: l2 :: (acc.reverse ++ p)) :: (run de rl .hdr0 rest).1,
       (run de rl .hdr0 rest).2) := by
  induction p with
  | nil => intro n acc rest h; simp at h
  | cons x xs ih =>
    intro n acc rest h
    cases n with
    | zero =>
      have : xs = [] := by
        cases xs with
        | nil => rfl
        | cons _ _ => simp at h
      subst this
      simp [run, step]
    | succ n =>
      simp only [List.cons_append, run, step]
      rw [ih n (x :: acc) rest (by simpa using h)]
      simp

/-- A PING payload that has not arrived completely: nothing is written, the reader waits. -/
theorem run_pbody_short (l0 l1 l2 : UInt8) (p : List UInt8) : ∀ (n : Nat) (acc : List UInt8), p.length ≤ n →
    run de rl (.pbody l0 l1 l2 n acc) p = ([], .pbody l0 l1 l2 (n - p.length) (p.reverse ++ acc)) := by
  induction p with
  | nil => intro n acc _; simp [run]
  | cons x xs ih =>
    intro n acc h
    cases n with
    | zero => simp at h
    | succ n =>
      simp only [run, step]
      rw [ih n (x :: acc) (by simpa using h)]
      simp

theorem run_discard (p : List UInt8) : ∀ (n : Nat) (rest : List UInt8), p.length = n + 1 →
    run de rl (.discard n) (p ++ rest) = run de rl .hdr0 rest := by
  induction p with
  | nil => intro n rest h; simp at h
  | cons x xs ih =>
    intro n rest h
    cases n with
    | zero =>
      have : xs = [] := by
        cases xs with
        | nil => rfl
        | cons _ _ => simp at h
      subst this
      simp [run, step]
    | succ n =>
      simp only [List.cons_append, run, step]
      rw [ih n rest (by simpa using h)]
      simp

end
theorem fits_iff (sl : Int) (p : List UInt8) :
    fits sl p = true ↔ ((p.length : Int) ≤ sl ∧ p.length ≤ 2 ^ 24 - 1) := by
  unfold fits Gen.sendDrop
  simp [Gen.maxFrameLen]
  omega

/-- What `frame` writes: type byte 0, the big-endian 24-bit length, the payload. -/
theorem frame_some (sl : Int) (p : List UInt8) (h : fits sl p = true) :
    ∃ a b c : UInt8, frame sl p = some (0 :: a :: b :: c :: p) ∧
      Gen.bytesToInt [a, b, c] = Int.ofNat p.length := by
  obtain ⟨a, b, c, e, ha, hb, hc⟩ := intToBytes_ofNat p.length
  have hlen := ((fits_iff sl p).mp h).2
  refine ⟨a, b, c, ?_, ?_⟩
  · unfold frame frameWrites
    unfold fits at h
    rw [if_neg (by simpa using h)]
    simp only [frameHeader, e, Gen.sendHeader]
    simp [Gen.senderWriteParts, writePart]
  · rw [bytesToInt_three, ha, hb, hc]
    congr 1
    omega

theorem frame_none (sl : Int) (p : List UInt8) (h : fits sl p = false) : frame sl p = none := by
  unfold frame frameWrites
  unfold fits at h
  rw [if_pos (by simpa using h)]
  rfl

section
variable {M : Type} (de : List UInt8 → Option M) (rl : Int)

/-- The events of a payload that has been read completely. -/
def payloadEvents (p : List UInt8) : List (Ev M) :=
  match de p with
  | some m => [.deliver m]
  | none => []

theorem onPayload_eq (p : List UInt8) : onPayload de p = (.hdr0, payloadEvents de p) := by
  unfold onPayload payloadEvents
  cases de p <;> rfl

/-- The reader on a header announcing a message of `n ≤ recvLimit` bytes. -/
theorem onHeader_msg (h0 l0 l1 l2 : UInt8) (n : Nat)
    (hk : Gen.readerCase (Gen.frameType h0) = .msg)
    (hn : Gen.bytesToInt [l0, l1, l2] = Int.ofNat n) (hle : (n : Int) ≤ rl) :
    onHeader de rl h0 l0 l1 l2 =
      if n = 0 then (.hdr0, payloadEvents de []) else (.body (n - 1) [], []) := by
  unfold onHeader
  simp only [hn, hk]
  have : Gen.recvOversize (Int.ofNat n) rl = false := by
    unfold Gen.recvOversize
    simp
    omega
  rw [if_neg (by rw [this]; simp)]
  simp [onPayload_eq]

/-- One whole message frame, then the rest of the stream. -/
theorem run_msg_frame (h0 l0 l1 l2 : UInt8) (p rest : List UInt8)
    (hk : Gen.readerCase (Gen.frameType h0) = .msg)
    (hn : Gen.bytesToInt [l0, l1, l2] = Int.ofNat p.length) (hle : (p.length : Int) ≤ rl) :
    run de rl .hdr0 (h0 :: l0 :: l1 :: l2 :: (p ++ rest)) =
      (payloadEvents de p ++ (run de rl .hdr0 rest).1, (run de rl .hdr0 rest).2) := by
  rw [run_header, onHeader_msg de rl h0 l0 l1 l2 p.length hk hn hle]
  by_cases h0' : p.length = 0
  · have : p = [] := List.length_eq_zero_iff.mp h0'
    subst this
    simp
  · rw [if_neg h0']
    simp only [List.nil_append]
    rw [run_body de rl p (p.length - 1) [] rest (by omega)]
    simp [onPayload_eq]

end
section
variable {M : Type} (de : List UInt8 → Option M) (rl : Int)

theorem readerCase_zero : Gen.readerCase (Gen.frameType 0) = .msg := by decide

/-- The wire image of a queue of payloads (those that do not fit are dropped by the
    sender), followed by anything: the reader hands over exactly the ones that fit and
    deserialise, in order, and is then where it would be on `rest` alone. -/
theorem run_frames (sl : Int) (hsl : sl ≤ rl) (ps : List (List UInt8)) (rest : List UInt8) :
    run de rl .hdr0 ((ps.filterMap (frame sl)).flatten ++ rest) =
      (((ps.filter (fits sl)).flatMap (payloadEvents de)) ++ (run de rl .hdr0 rest).1,
       (run de rl .hdr0 rest).2) := by
  induction ps with
  | nil => simp
  | cons p ps ih =>
    cases hf : fits sl p with
    | false =>
      rw [List.filterMap_cons, frame_none sl p hf]
      simp only [List.filter_cons, hf]
      exact ih
    | true =>
      obtain ⟨a, b, c, hfr, hlen⟩ := frame_some sl p hf
      have hle : (p.length : Int) ≤ rl := by
        have := ((fits_iff sl p).mp hf).1
        omega
      rw [List.filterMap_cons, hfr]
      simp only [List.filter_cons, hf, if_true, List.flatten_cons, List.flatMap_cons,
        List.cons_append, List.append_assoc]
      rw [run_msg_frame de rl 0 a b c p _ readerCase_zero hlen hle, ih]

theorem delivered_append (a b : List (Ev M)) : delivered (a ++ b) = delivered a ++ delivered b := by
  induction a with
  | nil => rfl
  | cons e es ih => cases e <;> simp [delivered, ih]

theorem written_append (a b : List (Ev M)) : written (a ++ b) = written a ++ written b := by
  induction a with
  | nil => rfl
  | cons e es ih => cases e <;> simp [written, ih]

theorem nilCount_append (a b : List (Ev M)) : nilCount (a ++ b) = nilCount a + nilCount b := by
  induction a with
  | nil => simp [nilCount]
  | cons e es ih => cases e <;> simp [nilCount, ih] <;> omega

theorem delivered_payloadEvents (ps : List (List UInt8)) :
    delivered (ps.flatMap (payloadEvents de)) = ps.filterMap de := by
  induction ps with
  | nil => rfl
  | cons p ps ih =>
    rw [List.flatMap_cons, delivered_append, ih, List.filterMap_cons]
    unfold payloadEvents
    cases de p <;> simp [delivered]

theorem written_payloadEvents (ps : List (List UInt8)) :
    written (ps.flatMap (payloadEvents de)) = [] := by
  induction ps with
  | nil => rfl
  | cons p ps ih =>
    rw [List.flatMap_cons, written_append, ih]
    unfold payloadEvents
    cases de p <;> simp [written]

end
theorem and7_toNat (x : UInt8) : (x &&& 7).toNat = x.toNat % 8 := by
  rw [UInt8.toNat_and]
  exact Nat.and_two_pow_sub_one_eq_mod x.toNat 3

/-- The reader's type switch in terms of the low three bits of header byte 0. -/
theorem readerCase_frameType (h0 : UInt8) :
    Gen.readerCase (Gen.frameType h0) =
      if h0.toNat % 8 = 0 then .msg else if h0.toNat % 8 = 1 then .ping
      else if h0.toNat % 8 = 2 then .pong else .reserved := by
  have h := and7_toNat h0
  unfold Gen.frameType
  generalize h0 &&& 7 = t at h
  rw [← h]
  unfold Gen.readerCase
  have e0 : (t = (0 : UInt8)) ↔ t.toNat = 0 := by rw [← UInt8.toNat_inj]; rfl
  have e1 : (t = (1 : UInt8)) ↔ t.toNat = 1 := by rw [← UInt8.toNat_inj]; rfl
  have e2 : (t = (2 : UInt8)) ↔ t.toNat = 2 := by rw [← UInt8.toNat_inj]; rfl
  simp only [e0, e1, e2]

section
variable {M : Type} (de : List UInt8 → Option M) (rl : Int)

theorem written_map_wrote (p : List UInt8) : written (p.map (fun b => (Ev.wrote [b] : Ev M))) = p := by
  induction p with
  | nil => rfl
  | cons x xs ih => simp [written, ih]

theorem delivered_map_wrote (p : List UInt8) : delivered (p.map (fun b => (Ev.wrote [b] : Ev M))) = [] := by
  induction p with
  | nil => rfl
  | cons x xs ih => simp [delivered, ih]

theorem not_oversize {n : Nat} (hle : (n : Int) ≤ rl) : Gen.recvOversize (Int.ofNat n) rl = false := by
  unfold Gen.recvOversize
  simp
  omega

theorem onPing_eq (l0 l1 l2 : UInt8) (n : Nat) :
    onPing (M := M) l0 l1 l2 n =
      if n = 0 then (.hdr0, [.wrote [2, l0, l1, l2]]) else (.pbody l0 l1 l2 (n - 1) [], []) := by
  simp [onPing, Gen.pongAfterPayload, Gen.pongType]

/-- A PING frame of `p.length ≤ recvLimit` bytes: once the payload is there, ONE write of the PONG
    frame (type 2, the same three length bytes, the same payload); nothing is delivered. -/
theorem run_ping_frame (h0 l0 l1 l2 : UInt8) (p rest : List UInt8)
    (hk : Gen.readerCase (Gen.frameType h0) = .ping)
    (hn : Gen.bytesToInt [l0, l1, l2] = Int.ofNat p.length) (hle : (p.length : Int) ≤ rl) :
    run de rl .hdr0 (h0 :: l0 :: l1 :: l2 :: (p ++ rest)) =
      (Ev.wrote (2 :: l0 :: l1 :: l2 :: p) :: (run de rl .hdr0 rest).1, (run de rl .hdr0 rest).2) := by
  rw [run_header]
  unfold onHeader
  simp only [hn, hk]
  rw [if_neg (by rw [not_oversize rl hle]; simp)]
  have e : (Int.ofNat p.length).toNat = p.length := by simp
  rw [e, onPing_eq]
  by_cases h0' : p.length = 0
  · have : p = [] := List.length_eq_zero_iff.mp h0'
    subst this
    simp
  · simp only [if_neg h0']
    rw [run_pbody de rl l0 l1 l2 p (p.length - 1) [] rest (by omega)]
    simp [Gen.pongType]

/-- A PING frame whose payload has not arrived completely: NOTHING has been written yet; the
    reader waits for the rest. -/
theorem run_ping_truncated (h0 l0 l1 l2 : UInt8) (n : Nat) (p : List UInt8)
    (hk : Gen.readerCase (Gen.frameType h0) = .ping)
    (hn : Gen.bytesToInt [l0, l1, l2] = Int.ofNat n) (hle : (n : Int) ≤ rl) (hp : p.length < n) :
    run de rl .hdr0 (h0 :: l0 :: l1 :: l2 :: p) =
      ([], .pbody l0 l1 l2 (n - 1 - p.length) p.reverse) := by
  rw [run_header]
  unfold onHeader
  simp only [hn, hk]
  rw [if_neg (by rw [not_oversize rl hle]; simp)]
  have e : (Int.ofNat n).toNat = n := by simp
  rw [e, onPing_eq]
  simp only [if_neg (show ¬ n = 0 by omega)]
  rw [run_pbody_short de rl l0 l1 l2 p (n - 1) [] (by omega)]
  simp

/-- A PONG frame is read and dropped. -/
theorem run_pong_frame (h0 l0 l1 l2 : UInt8) (p rest : List UInt8)
    (hk : Gen.readerCase (Gen.frameType h0) = .pong)
    (hn : Gen.bytesToInt [l0, l1, l2] = Int.ofNat p.length) (hle : (p.length : Int) ≤ rl) :
    run de rl .hdr0 (h0 :: l0 :: l1 :: l2 :: (p ++ rest)) = run de rl .hdr0 rest := by
  rw [run_header]
  unfold onHeader
  simp only [hn, hk]
  rw [if_neg (by rw [not_oversize rl hle]; simp)]
  by_cases h0' : p.length = 0
  · have : p = [] := List.length_eq_zero_iff.mp h0'
    subst this
    simp
  · have e : (Int.ofNat p.length).toNat = p.length := by simp
    simp only [e, if_neg h0']
    rw [run_discard de rl p (p.length - 1) rest (by omega)]
    simp

/-- A header announcing more than the receive limit: closed, whatever the type and whatever follows. -/
theorem run_oversize (h0 l0 l1 l2 : UInt8) (rest : List UInt8)
    (h : Gen.bytesToInt [l0, l1, l2] > rl) :
    run de rl .hdr0 (h0 :: l0 :: l1 :: l2 :: rest) = ([], .closed .oversize) := by
  rw [run_header]
  unfold onHeader
  have : Gen.recvOversize (Gen.bytesToInt [l0, l1, l2]) rl = true := by
    unfold Gen.recvOversize; simpa using h
  simp only [this, if_true]
  rw [run_closed]
  simp

/-- A header of reserved type: closed, whatever follows. -/
theorem run_reserved (h0 l0 l1 l2 : UInt8) (rest : List UInt8)
    (hk : Gen.readerCase (Gen.frameType h0) = .reserved) :
    ∃ why, run de rl .hdr0 (h0 :: l0 :: l1 :: l2 :: rest) = ([], .closed why) := by
  rw [run_header]
  unfold onHeader
  simp only [hk]
  split
  · exact ⟨.oversize, by rw [run_closed]; simp⟩
  · exact ⟨.reservedType, by rw [run_closed]; simp⟩


end
theorem readerCase_ne_nil (t : UInt8) : Gen.readerCase t ≠ .fallthroughNil := by
  unfold Gen.readerCase
  repeat' split
  all_goals simp

section
variable {M : Type} (de : List UInt8 → Option M) (rl : Int)

theorem nilCount_payloadEvents (p : List UInt8) : nilCount (payloadEvents de p) = 0 := by
  unfold payloadEvents; cases de p <;> rfl

/-- The shapes `onHeader` can return. -/
theorem onHeader_shape (h0 l0 l1 l2 : UInt8) :
    ∃ s evs, onHeader de rl h0 l0 l1 l2 = (s, evs) ∧
      (evs = [] ∨ evs = payloadEvents de [] ∨ evs = [.wrote [Gen.pongType, l0, l1, l2]]) := by
  unfold onHeader
  generalize Gen.bytesToInt [l0, l1, l2] = len
  have hne := readerCase_ne_nil (Gen.frameType h0)
  generalize Gen.readerCase (Gen.frameType h0) = k at hne
  by_cases ho : Gen.recvOversize len rl = true
  · exact ⟨_, _, by rw [if_pos ho], Or.inl rfl⟩
  · cases k with
    | msg =>
      by_cases hz : len.toNat = 0
      · exact ⟨_, _, by simp only [if_neg ho, if_pos hz, onPayload_eq]; rfl, Or.inr (Or.inl rfl)⟩
      · exact ⟨_, _, by simp only [if_neg ho, if_neg hz]; rfl, Or.inl rfl⟩
    | ping =>
      simp only [if_neg ho, onPing_eq]
      by_cases hz : len.toNat = 0
      · exact ⟨_, _, by rw [if_pos hz], Or.inr (Or.inr (by simp [Gen.pongType]))⟩
      · exact ⟨_, _, by rw [if_neg hz], Or.inl rfl⟩
    | pong => exact ⟨_, _, by simp only [if_neg ho]; rfl, Or.inl rfl⟩
    | reserved => exact ⟨_, _, by simp only [if_neg ho]; rfl, Or.inl rfl⟩
    | fallthroughNil => exact absurd rfl hne

theorem nilCount_onHeader (h0 l0 l1 l2 : UInt8) : nilCount (onHeader de rl h0 l0 l1 l2).2 = 0 := by
  obtain ⟨s, evs, h, hs⟩ := onHeader_shape de rl h0 l0 l1 l2
  rw [h]
  rcases hs with e | e | e <;> subst e
  · rfl
  · exact nilCount_payloadEvents de []
  · rfl

theorem nilCount_step (s : RState) (b : UInt8) : nilCount (step de rl s b).2 = 0 := by
  cases s with
  | hdr3 h0 l0 l1 => rw [step_hdr3]; exact nilCount_onHeader de rl h0 l0 l1 b
  | body n acc =>
    cases n with
    | zero =>
      have : step de rl (.body 0 acc) b = onPayload de (b :: acc).reverse := rfl
      rw [this, onPayload_eq]; exact nilCount_payloadEvents de _
    | succ n => rfl
  | pbody _ _ _ n _ => cases n <;> rfl
  | echo n => cases n <;> rfl
  | discard n => cases n <;> rfl
  | hdr0 => rfl
  | hdr1 _ => rfl
  | hdr2 _ _ => rfl
  | closed _ => rfl

/-- The reader never hands a nil message to the router. -/
theorem nilCount_run (s : RState) (bs : List UInt8) : nilCount (run de rl s bs).1 = 0 := by
  induction bs generalizing s with
  | nil => rfl
  | cons b bs ih =>
    rw [run_cons, nilCount_append, nilCount_step, ih]

end
section
variable {M : Type} (de : List UInt8 → Option M) (rl : Int)

/-- What an event of the reader with the identity deserializer becomes under `de`. -/
def mapEv : Ev (List UInt8) → List (Ev M)
  | .deliver p => payloadEvents de p
  | .deliverNil => [.deliverNil]
  | .wrote bs => [.wrote bs]

theorem onPayload_map (p : List UInt8) :
    ∃ s evs, onPayload (M := List UInt8) some p = (s, evs) ∧ onPayload de p = (s, evs.flatMap (mapEv de)) := by
  refine ⟨.hdr0, [.deliver p], ?_, ?_⟩
  · rw [onPayload_eq]; rfl
  · rw [onPayload_eq]; simp [mapEv]

theorem onHeader_map (h0 l0 l1 l2 : UInt8) :
    ∃ s evs, onHeader (M := List UInt8) some rl h0 l0 l1 l2 = (s, evs) ∧
      onHeader de rl h0 l0 l1 l2 = (s, evs.flatMap (mapEv de)) := by
  unfold onHeader
  generalize Gen.bytesToInt [l0, l1, l2] = len
  generalize Gen.readerCase (Gen.frameType h0) = k
  by_cases ho : Gen.recvOversize len rl = true
  · exact ⟨_, [], by rw [if_pos ho], by rw [if_pos ho]; rfl⟩
  · cases k with
    | msg =>
      by_cases hz : len.toNat = 0
      · obtain ⟨s, evs, h1, h2⟩ := onPayload_map de []
        exact ⟨s, evs, by simp only [if_neg ho, if_pos hz]; exact h1, by simp only [if_neg ho, if_pos hz]; exact h2⟩
      · exact ⟨_, [], by simp only [if_neg ho, if_neg hz]; rfl, by simp only [if_neg ho, if_neg hz]; rfl⟩
    | ping =>
      simp only [if_neg ho, onPing_eq]
      by_cases hz : len.toNat = 0
      · exact ⟨_, [.wrote [2, l0, l1, l2]], by rw [if_pos hz], by rw [if_pos hz]; rfl⟩
      · exact ⟨_, [], by rw [if_neg hz], by rw [if_neg hz]; rfl⟩
    | pong => exact ⟨_, [], by simp only [if_neg ho]; rfl, by simp only [if_neg ho]; rfl⟩
    | reserved => exact ⟨_, [], by simp only [if_neg ho]; rfl, by simp only [if_neg ho]; rfl⟩
    | fallthroughNil => exact ⟨_, [.deliverNil], by simp only [if_neg ho]; rfl, by simp only [if_neg ho]; rfl⟩

theorem step_map (s : RState) (b : UInt8) :
    ∃ s' evs, step (M := List UInt8) some rl s b = (s', evs) ∧ step de rl s b = (s', evs.flatMap (mapEv de)) := by
  cases s with
  | hdr3 h0 l0 l1 => rw [step_hdr3, step_hdr3]; exact onHeader_map de rl h0 l0 l1 b
  | body n acc =>
    cases n with
    | zero => exact onPayload_map de _
    | succ n => exact ⟨_, [], rfl, rfl⟩
  | pbody l0 l1 l2 n acc =>
    cases n with
    | zero => exact ⟨_, [.wrote (Gen.pongType :: l0 :: l1 :: l2 :: (b :: acc).reverse)], rfl, rfl⟩
    | succ n => exact ⟨_, [], rfl, rfl⟩
  | echo n => cases n <;> exact ⟨_, [.wrote [b]], rfl, rfl⟩
  | discard n => cases n <;> exact ⟨_, [], rfl, rfl⟩
  | hdr0 => exact ⟨_, [], rfl, rfl⟩
  | hdr1 _ => exact ⟨_, [], rfl, rfl⟩
  | hdr2 _ _ => exact ⟨_, [], rfl, rfl⟩
  | closed _ => exact ⟨_, [], rfl, rfl⟩

/-- The reader under a deserializer `de` is the reader under the identity deserializer with
    `de` applied to each payload it would hand over (undeserialisable ones vanish). -/
theorem run_map (s : RState) (bs : List UInt8) :
    run de rl s bs =
      ((run (M := List UInt8) some rl s bs).1.flatMap (mapEv de), (run (M := List UInt8) some rl s bs).2) := by
  induction bs generalizing s with
  | nil => rfl
  | cons b bs ih =>
    obtain ⟨s', evs, h1, h2⟩ := step_map de rl s b
    rw [run_cons, run_cons, h1, h2, ih]
    simp

theorem delivered_flatMap_mapEv (evs : List (Ev (List UInt8))) :
    delivered (evs.flatMap (mapEv de)) = (delivered evs).filterMap de := by
  induction evs with
  | nil => rfl
  | cons e es ih =>
    rw [List.flatMap_cons, delivered_append, ih]
    cases e with
    | deliver p =>
      simp only [mapEv, delivered, List.filterMap_cons]
      unfold payloadEvents
      cases de p <;> simp [delivered]
    | deliverNil => simp [mapEv, delivered]
    | wrote bs => simp [mapEv, delivered]

theorem written_flatMap_mapEv (evs : List (Ev (List UInt8))) :
    written (evs.flatMap (mapEv de)) = written evs := by
  induction evs with
  | nil => rfl
  | cons e es ih =>
    rw [List.flatMap_cons, written_append, ih]
    cases e with
    | deliver p =>
      simp only [mapEv, written]
      unfold payloadEvents
      cases de p <;> simp [written]
    | deliverNil => simp [mapEv, written]
    | wrote bs => simp [mapEv, written]

end

/-! ## end of stream as an input (`In`, `atEOF`, `stepIn`, `runIn`, `decodeStreamEOF`) -/

section
variable {M : Type} (de : List UInt8 → Option M) (rl : Int)

theorem runIn_cons (s : RState) (i : In) (is : List In) :
    runIn de rl s (i :: is) =
      ((stepIn de rl s i).2 ++ (runIn de rl (stepIn de rl s i).1 is).1,
       (runIn de rl (stepIn de rl s i).1 is).2) := rfl

/-- The extended machine is conservative: on inputs that are all bytes it IS the byte machine. -/
theorem runIn_bytes (s : RState) (bs : List UInt8) :
    runIn de rl s (bs.map In.byte) = run de rl s bs := by
  induction bs generalizing s with
  | nil => rfl
  | cons b bs ih =>
    simp only [List.map_cons, runIn_cons, stepIn, ih, run_cons]

theorem runIn_append (s : RState) (a b : List In) :
    runIn de rl s (a ++ b) =
      ((runIn de rl s a).1 ++ (runIn de rl (runIn de rl s a).2 b).1,
       (runIn de rl (runIn de rl s a).2 b).2) := by
  induction a generalizing s with
  | nil => simp [runIn]
  | cons x xs ih =>
    simp only [List.cons_append, runIn_cons]
    rw [ih]
    simp [List.append_assoc]

theorem atEOF_closed (why : CloseReason) : atEOF (.closed why) = .closed why := rfl

/-- Whatever the state, after the end of the stream the goroutine has returned. -/
theorem atEOF_isClosed (s : RState) : (atEOF s).isClosed = true := by
  cases s <;> rfl

theorem atEOF_idem (s : RState) : atEOF (atEOF s) = atEOF s := by
  cases s <;> rfl

/-- The reason after the end of the stream: the reader's own, if it had closed already;
    otherwise `eof`, flagged with "inside a frame". -/
theorem atEOF_eq (s : RState) :
    atEOF s = match s with
      | .closed why => .closed why
      | s => .closed (.eof s.inFrame) := by
  cases s <;> rfl

theorem atEOF_of_not_closed (s : RState) (h : s.isClosed = false) :
    atEOF s = .closed (.eof s.inFrame) := by
  cases s <;> first | rfl | cases h

/-- A closed reader ignores every input, the end of the stream included. -/
theorem runIn_closed (why : CloseReason) (is : List In) :
    runIn de rl (.closed why) is = ([], .closed why) := by
  induction is with
  | nil => rfl
  | cons i is ih =>
    cases i with
    | byte b => simp [runIn, stepIn, step, ih]
    | eof => simp [runIn, stepIn, atEOF, ih]

/-- Bytes, then the end of the stream: the events of the bytes, nothing more; the final state
    is `atEOF` of where the bytes left the reader. -/
theorem runIn_bytes_eof (s : RState) (bs : List UInt8) :
    runIn de rl s (bs.map In.byte ++ [In.eof]) = ((run de rl s bs).1, atEOF (run de rl s bs).2) := by
  rw [runIn_append, runIn_bytes]
  simp [runIn, stepIn]

/-- Nothing after the end of the stream is read. -/
theorem runIn_eof_cons (s : RState) (is : List In) :
    runIn de rl s (In.eof :: is) = ([], atEOF s) := by
  rw [runIn_cons]
  simp only [stepIn, List.nil_append]
  have h := atEOF_isClosed s
  cases hs : atEOF s with
  | closed why => rw [runIn_closed]
  | _ => rw [hs] at h; cases h

theorem decodeStreamEOF_eq (bs : List UInt8) :
    decodeStreamEOF de rl bs = ((decodeStream de rl bs).1, atEOF (decodeStream de rl bs).2) :=
  runIn_bytes_eof de rl .hdr0 bs

/-- The reader has seen the end of the stream. -/
def RState.sawEOF : RState → Bool
  | .closed (.eof _) => true
  | _ => false

theorem onHeader_not_sawEOF (h0 l0 l1 l2 : UInt8) :
    (onHeader de rl h0 l0 l1 l2).1.sawEOF = false := by
  unfold onHeader
  generalize Gen.bytesToInt [l0, l1, l2] = len
  generalize Gen.readerCase (Gen.frameType h0) = k
  by_cases ho : Gen.recvOversize len rl = true
  · simp only [if_pos ho]; rfl
  · cases k with
    | msg =>
      by_cases hz : len.toNat = 0
      · simp only [if_neg ho, if_pos hz, onPayload_eq]; rfl
      · simp only [if_neg ho, if_neg hz]; rfl
    | ping =>
      simp only [if_neg ho, onPing_eq]
      by_cases hz : len.toNat = 0
      · rw [if_pos hz]; rfl
      · rw [if_neg hz]; rfl
    | pong =>
      simp only [if_neg ho]
      by_cases hz : len.toNat = 0
      · rw [if_pos hz]; rfl
      · rw [if_neg hz]; rfl
    | reserved => simp only [if_neg ho]; rfl
    | fallthroughNil => simp only [if_neg ho]; rfl

/-- Bytes never make the reader "see" an end of stream: only the `eof` input does. -/
theorem step_sawEOF (s : RState) (b : UInt8) : (step de rl s b).1.sawEOF = s.sawEOF := by
  cases s with
  | hdr3 h0 l0 l1 => rw [step_hdr3]; exact onHeader_not_sawEOF de rl h0 l0 l1 b
  | body n acc =>
    cases n with
    | zero =>
      have : step de rl (.body 0 acc) b = onPayload de (b :: acc).reverse := rfl
      rw [this, onPayload_eq]; rfl
    | succ n => rfl
  | pbody _ _ _ n _ => cases n <;> rfl
  | echo n => cases n <;> rfl
  | discard n => cases n <;> rfl
  | hdr0 => rfl
  | hdr1 _ => rfl
  | hdr2 _ _ => rfl
  | closed _ => rfl

theorem run_sawEOF (s : RState) (bs : List UInt8) : (run de rl s bs).2.sawEOF = s.sawEOF := by
  induction bs generalizing s with
  | nil => rfl
  | cons b bs ih => rw [run_cons]; simp only [ih, step_sawEOF]

theorem decodeStream_not_sawEOF (bs : List UInt8) : (decodeStream de rl bs).2.sawEOF = false :=
  run_sawEOF de rl .hdr0 bs

end
end Nexus.Frame
