/-
  The writer side of one rawsocket connection as far as it is logic.

  Two goroutines call `rs.conn.Write` on the same `net.Conn` and no lock is
  taken around those calls (transport/rawsocketpeer.go):

  * the sender goroutine (`sendHandler`): per message `Write(header)` then
    `Write(b)`                                     — `Gen.senderWrites`;
  * the reader goroutine (`recvHandler`), answering a PING: `Write(header[:])`
    then `io.CopyN(rs.conn, rs.conn, length)`, i.e. one or more `Write` calls
    carrying the payload in whatever chunks the copy uses — `Gen.pongWrites`.

  What `net.Conn` guarantees ("Multiple goroutines may invoke methods on a Conn
  simultaneously"; both `net.TCPConn` and `net.Pipe` serialise whole `Write`
  calls under a write lock) is that each call is atomic and calls are totally
  ordered.  So the connection is a LOG of write calls, and every execution is
  a `Merge` of the two goroutines' call sequences.

  Core-only.
-/
import Nexus.Frame.Stream

namespace Nexus.Frame
open Nexus

inductive Role where
  | sender | reader
  deriving DecidableEq, Repr

/-- One `conn.Write(bytes)` call. -/
structure WriteCall where
  role : Role
  bytes : List UInt8
  deriving DecidableEq, Repr

/-- `Merge as bs cs`: cs interleaves as and bs, keeping the order of each. -/
inductive Merge {α : Type} : List α → List α → List α → Prop where
  | nil : Merge [] [] []
  | left {a : α} {as bs cs : List α} : Merge as bs cs → Merge (a :: as) bs (a :: cs)
  | right {b : α} {as bs cs : List α} : Merge as bs cs → Merge as (b :: bs) (b :: cs)

/-- What the other end of the connection receives for a log of write calls. -/
def wire (calls : List WriteCall) : List UInt8 := (calls.map (·.bytes)).flatten

/-- The sender goroutine's calls for a queue of serialised messages. -/
def senderCalls (sendLimit : Int) (payloads : List (List UInt8)) : List WriteCall :=
  ((payloads.filterMap (frameWrites sendLimit)).flatten).map (fun b => ⟨.sender, b⟩)

/-- One PING being answered: the three length bytes of its header and the chunks in which
    `io.CopyN` happens to write the payload back. -/
structure Pong where
  l0 : UInt8
  l1 : UInt8
  l2 : UInt8
  chunks : List (List UInt8)
  deriving Repr

/-- The reader goroutine's calls for one PING. -/
def pongCalls (p : Pong) : List WriteCall :=
  ⟨.reader, [Gen.pongType, p.l0, p.l1, p.l2]⟩ :: p.chunks.map (fun c => ⟨.reader, c⟩)

/-- The reader goroutine's calls for the PINGs it answers, in order. -/
def readerCalls (ps : List Pong) : List WriteCall := ps.flatMap pongCalls

/-- The PONG frame as a unit (what a lock around the reader's writes would make atomic). -/
def pongFrame (p : Pong) : List UInt8 := [Gen.pongType, p.l0, p.l1, p.l2] ++ p.chunks.flatten

/-- A PONG whose header announces exactly the bytes that follow, within the peer's limit. -/
def Pong.wellFormed (p : Pong) (recvLimit : Int) : Prop :=
  Gen.bytesToInt [p.l0, p.l1, p.l2] = Int.ofNat p.chunks.flatten.length ∧
    (p.chunks.flatten.length : Int) ≤ recvLimit

end Nexus.Frame
