/-
  The writer side of one rawsocket connection as far as it is logic.

  Two goroutines call `rs.conn.Write` on the same `net.Conn` and no lock is
  taken around those calls (transport/rawsocketpeer.go):

  * the sender goroutine (`sendHandler`), per message — `Gen.senderWriteParts`:
    today ONE call `Write(frame)` with frame = header ++ b (before commit
    "every rawsocket frame is written with one Write call": `Write(header)`
    then `Write(b)`);
  * the reader goroutine (`recvHandler`), answering a PING — `Gen.pongWriteParts`:
    today ONE call `Write(pong)` after the payload has been read completely
    (before: `Write(header[:])` then `io.CopyN(rs.conn, rs.conn, length)`).

  What `net.Conn` guarantees ("Multiple goroutines may invoke methods on a Conn
  simultaneously"; both `net.TCPConn` and `net.Pipe` serialise whole `Write`
  calls under a write lock) is that each call is atomic and calls are totally
  ordered.  So the connection is a LOG of write calls, and every execution is
  a `Merge` of the two goroutines' call sequences.

  Also here: what the sender goroutine does once its context is cancelled
  (`Close`, or the reader seeing EOF): `afterCancel`.

  Core-only.
-/
import Nexus.Frame.Stream

namespace Nexus.Frame
open Nexus

inductive Role where
  | sender | reader
  deriving DecidableEq, Repr

/-- One `conn.Write(bytes)` call. -/
structure WriteCall where
  role : Role
  bytes : List UInt8
  deriving DecidableEq, Repr

/-- `Merge as bs cs`: cs interleaves as and bs, keeping the order of each. -/
inductive Merge {α : Type} : List α → List α → List α → Prop where
  | nil : Merge [] [] []
  | left {a : α} {as bs cs : List α} : Merge as bs cs → Merge (a :: as) bs (a :: cs)
  | right {b : α} {as bs cs : List α} : Merge as bs cs → Merge as (b :: bs) (b :: cs)

/-- What the other end of the connection receives for a log of write calls. -/
def wire (calls : List WriteCall) : List UInt8 := (calls.map (·.bytes)).flatten

/-- The sender goroutine's calls for a queue of serialised messages. -/
def senderCalls (sendLimit : Int) (payloads : List (List UInt8)) : List WriteCall :=
  ((payloads.filterMap (frameWrites sendLimit)).flatten).map (fun b => ⟨.sender, b⟩)

/-- One PING being answered: the three length bytes of its header and its payload. -/
structure Pong where
  l0 : UInt8
  l1 : UInt8
  l2 : UInt8
  payload : List UInt8
  deriving Repr

/-- The PONG frame: type 2, the same length bytes, the same payload. -/
def pongFrame (p : Pong) : List UInt8 := [Gen.pongType, p.l0, p.l1, p.l2] ++ p.payload

/-- The reader goroutine's calls for one PING (`Gen.pongWriteParts`). -/
def pongCalls (p : Pong) : List WriteCall :=
  Gen.pongWriteParts.map (fun parts =>
    ⟨.reader, parts.flatMap (writePart [Gen.pongType, p.l0, p.l1, p.l2] p.payload)⟩)

/-- The reader goroutine's calls for the PINGs it answers, in order. -/
def readerCalls (ps : List Pong) : List WriteCall := ps.flatMap pongCalls

/-- A PONG whose header announces exactly the bytes that follow, within the peer's limit. -/
def Pong.wellFormed (p : Pong) (recvLimit : Int) : Prop :=
  Gen.bytesToInt [p.l0, p.l1, p.l2] = Int.ofNat p.payload.length ∧
    (p.payload.length : Int) ≤ recvLimit

/-! ## the two-call shape the code had before (kept to show what the one-call shape buys) -/

/-- `Write(header)` then `Write(b)`. -/
def senderCallsSplit (sendLimit : Int) (payloads : List (List UInt8)) : List WriteCall :=
  (payloads.filter (fits sendLimit)).flatMap (fun p => [⟨.sender, frameHeader p.length⟩, ⟨.sender, p⟩])

/-- `Write(header[:])` then the payload copied back. -/
def pongCallsSplit (p : Pong) : List WriteCall :=
  [⟨.reader, [Gen.pongType, p.l0, p.l1, p.l2]⟩, ⟨.reader, p.payload⟩]

/-! ## the sender goroutine after its context has been cancelled -/

/-- The write calls of the sender goroutine from the moment `ctxSender` is cancelled, with
    `queue` sitting in `rs.wr` (nothing is added any more: `Close` cancels, waits for the sender
    to exit, and only then closes the channel).

    While the goroutine is in its normal `select`, both cases are ready — a queued message and
    `<-senderDone` — and Go picks either; `oracle` is that sequence of picks (true = the message).
    Once `<-senderDone` is picked: with `drains` (the source today, `Gen.senderDrainsOnDone`)
    the goroutine takes every message still queued, in order, and exits when `rs.wr` is empty;
    without it the goroutine returns at once and `Close` discards the rest.
    `w m` are the calls for one message (none if it does not serialise or does not fit);
    writes are taken to succeed (a failed write is logged and the loop goes on). -/
def afterCancel {M : Type} (drains : Bool) (w : M → List WriteCall) : List Bool → List M → List WriteCall
  | _, [] => []
  | [], m :: q => if drains then (m :: q).flatMap w else []
  | o :: os, m :: q =>
    if o then w m ++ afterCancel drains w os q
    else if drains then (m :: q).flatMap w else []

/-- The sender's calls for one message handed to `Send()`. -/
def messageCalls {M : Type} (ser : M → Option (List UInt8)) (sendLimit : Int) (m : M) : List WriteCall :=
  match ser m with
  | some p => senderCalls sendLimit [p]
  | none => []

/-- The sender goroutine's write calls that are GUARANTEED to be made on the still open
    connection once the reader goroutine has seen the end of the stream in state `s`, with `queue`
    sitting in `rs.wr` (a lower bound).  When the failed read was the header read, the reader
    cancels the sender and waits for it before closing the connection (`readErrAction`), so the
    sender does what it does after any cancellation (`afterCancel`); when it was a body read the
    connection is closed under the sender at once and nothing is guaranteed. -/
def senderCallsAfterEOF {M : Type} (ser : M → Option (List UInt8)) (sendLimit : Int) (s : RState)
    (oracle : List Bool) (queue : List M) : List WriteCall :=
  match readErrAction s with
  | some a =>
    if a.cancelsSender then afterCancel Gen.senderDrainsOnDone (messageCalls ser sendLimit) oracle queue
    else []
  | none => []

end Nexus.Frame
