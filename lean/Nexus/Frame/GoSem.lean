/-
  Go's fixed-width semantics for the handful of operations that occur in the
  pure rawsocket functions (`fitRecvLimit`, `intToBytes`, `bytesToInt`,
  `byteToLength`) and in the conditions that `gen frame` lifts out of
  `transport/rawsocketpeer.go`.  `Nexus/Gen/Frame.lean` (generated) is written
  in terms of these helpers only.

  Go type        Lean carrier
  -----------    -----------------------------------------------------------
  int  (int64)   `Int`, every operation that can leave the 64-bit range is
                 followed by `wrapInt` (two's complement)
  uint (uint64)  `UInt64` (native wrap-around)
  byte (uint8)   `UInt8`  (native wrap-around)
  []byte/[n]byte `List UInt8`

  Core-only (the model driver links this file).
-/
namespace Nexus.Go

/-- Two's complement reduction of a mathematical integer to the int64 range. -/
def wrapInt (x : Int) : Int := (x + 2 ^ 63) % 2 ^ 64 - 2 ^ 63

def addInt (a b : Int) : Int := wrapInt (a + b)
def subInt (a b : Int) : Int := wrapInt (a - b)

/-- `a & b` on ints.  Bitwise AND on (infinite) two's complement integers; on
    int64 operands this is exactly Go's result. -/
def andInt : Int → Int → Int
  | .ofNat a, .ofNat b => Int.ofNat (a &&& b)
  | .ofNat a, .negSucc b => Int.ofNat (a - (a &&& b))
  | .negSucc a, .ofNat b => Int.ofNat (b - (b &&& a))
  | .negSucc a, .negSucc b => .negSucc (a ||| b)

/-- `x >> k` on an int: arithmetic shift (floor division by 2^k). -/
def shrInt (x : Int) (k : Nat) : Int := x >>> k

/-- `x << k` on an int: a count ≥ 64 gives 0, otherwise the product wraps. -/
def shlInt (x : Int) (k : Nat) : Int := if k ≥ 64 then 0 else wrapInt (x * 2 ^ k)

/-- `byte(x)` for an int x: the low 8 bits. -/
def byteOfInt (x : Int) : UInt8 := UInt8.ofNat (x % 256).toNat

/-- `uint(b)` for a byte b. -/
def uintOfByte (b : UInt8) : UInt64 := b.toUInt64

/-- `int(n)` for a uint n: reinterpretation (values ≥ 2^63 become negative). -/
def intOfUint (n : UInt64) : Int := wrapInt (Int.ofNat n.toNat)

/-- `x << s` on a uint with a run-time count: counts ≥ 64 give 0 (Go), whereas
    Lean's `<<<` on `UInt64` reduces the count modulo 64. -/
def shlU64 (x : UInt64) (s : Nat) : UInt64 := if s ≥ 64 then 0 else x <<< UInt64.ofNat s

/-- `x << k` / `x >> k` on a byte: counts ≥ 8 give 0. -/
def shlU8 (x : UInt8) (k : Nat) : UInt8 := if k ≥ 8 then 0 else x <<< UInt8.ofNat k
def shrU8 (x : UInt8) (k : Nat) : UInt8 := if k ≥ 8 then 0 else x >>> UInt8.ofNat k

/-- `for b := range byte(n) { body }` where the body either returns (`some r`)
    or falls through (`none`): b takes the values 0 .. n-1 in order. -/
def rangeByte {α : Type} (n : UInt8) (body : UInt8 → Option α) : Option α :=
  (List.range n.toNat).findSome? (fun i => body (UInt8.ofNat i))

/-- Iterations `i = n-1, n-2, .., 0` of a state transformer. -/
def forDownNat {σ : Type} : Nat → σ → (Nat → σ → σ) → σ
  | 0, st, _ => st
  | n + 1, st, body => forDownNat n (body n st) body

/-- `for i := start; i >= 0; i-- { body }` over loop-carried state `st`. -/
def forDown {σ : Type} (start : Int) (st : σ) (body : Nat → σ → σ) : σ :=
  if start < 0 then st else forDownNat (start.toNat + 1) st body

/-- `len(b)` as an int. -/
def lenInt {α : Type} (b : List α) : Int := Int.ofNat b.length

end Nexus.Go

namespace Nexus.Frame

/-- What a case of a handshake `switch` over the serializer nibble does. -/
inductive SerChoice where
  /-- `return nil, errors.New(err)`, after writing `reply` when there is one -/
  | reject (reply : Option (List UInt8)) (err : String)
  /-- `serializer = &serialize.<name>{}` -/
  | accept (serializer : String)
  deriving Repr, DecidableEq

/-- What a case of the reader's `switch header[0] & 0x07` does. -/
inductive FrameKind where
  | msg | ping | pong
  /-- close the connection, end the reader -/
  | reserved
  /-- (no default clause) fall out of the switch with `msg == nil` and hand it to the router -/
  | fallthroughNil
  deriving Repr, DecidableEq

end Nexus.Frame
