/-
  Source hashes of the modelled functions as they were when the model was last
  reconciled with transport/rawsocketpeer.go.  A differing hash is not an alarm
  (§5.1 of DESIGN.md): the family `frames` then runs at thorough width.
  Core-only.
-/
import Nexus.Gen.Frame

namespace Nexus.Frame

def reconciledHashes : List (String × String) := [
  ("byteToLength", "25fbdbee8c7a28cbfb25985b7f5a7cbf9fee8a49dc626e7709c6cb4b1db91b65"),
  ("fitRecvLimit", "db1c29e8e4a91fff2202a4f7740a192a8fa4175f2fad7a725fbf3b4722b080a3"),
  ("intToBytes", "c0cf31b1186820c5958a89a57e9b82302dbaf0c22d41e4da456b89a68fa36b94"),
  ("bytesToInt", "65b747c01985c66b23b7ef78f12f12066fe51e44f51dd7d6e8ab315aef8e559e"),
  ("sendHandler", "054f65818eaf2a06cfa507366096312b891edbeab6b604725654b152299cfdfc"),
  ("recvHandler", "c16a243ddb60aa6b686bf7abca7116533c30205755d9ae2ef47fce7dd9d7a724"),
  ("serverHandshake", "eaef51b9d879c52a15a8e2c44a8625924034482b8af5a69b0273b913964da9eb"),
  ("clientHandshake", "87040126c0df91e8a7634afa61fdb48693953e196dfedbf90030a5742717fae0")
]

/-- Names of the functions whose source text changed since the last reconciliation. -/
def hashDrift : List String :=
  (Gen.frameSourceHashes.filter (fun p => !(reconciledHashes.contains p))).map (·.1)

end Nexus.Frame
