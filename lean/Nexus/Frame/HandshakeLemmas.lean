/-
  Case analysis of the rawsocket handshake model (`Nexus.Frame.Handshake`):
  helper lemmas for `Nexus.Props.C15`.
-/
import Nexus.Frame.Arith
import Nexus.Frame.Handshake
namespace Nexus.Frame
open Nexus

/-- Serializer name per rawsocket protocol number. -/
def serName : Nat → String
  | 1 => "JSONSerializer"
  | 2 => "MessagePackSerializer"
  | 3 => "CBORSerializer"
  | _ => "nil"

theorem u8_eq_of_toNat {x : UInt8} {n : Nat} (hn : n < 256) (h : x.toNat = n) : x = UInt8.ofNat n := by
  apply UInt8.toNat_inj.mp
  rw [h, ofNat_toNat_lt hn]

theorem srvSerCase_cases (x : UInt8) (hx : x.toNat < 16) :
    (x.toNat = 0 → Gen.srvSerCase x = .reject none "illegal serializer value") ∧
    (1 ≤ x.toNat → x.toNat ≤ 3 → Gen.srvSerCase x = .accept (serName x.toNat)) ∧
    (4 ≤ x.toNat → Gen.srvSerCase x = .reject (some [0x7f, 0x10, 0, 0]) "serializer unsupported") := by
  refine ⟨?_, ?_, ?_⟩
  · intro h
    rw [u8_eq_of_toNat (by decide) h]; rfl
  · intro h1 h3
    have : x.toNat = 1 ∨ x.toNat = 2 ∨ x.toNat = 3 := by omega
    rcases this with h | h | h <;> rw [h, u8_eq_of_toNat (by decide) h] <;> rfl
  · intro h4
    unfold Gen.srvSerCase
    have n0 : x ≠ (0 : UInt8) := by intro e; rw [e] at h4; revert h4; decide
    have n1 : x ≠ UInt8.ofNat Gen.rawsocketJSON := by intro e; rw [e] at h4; revert h4; decide
    have n2 : x ≠ UInt8.ofNat Gen.rawsocketMsgpack := by intro e; rw [e] at h4; revert h4; decide
    have n3 : x ≠ UInt8.ofNat Gen.rawsocketCBOR := by intro e; rw [e] at h4; revert h4; decide
    rw [if_neg n0, if_neg n1, if_neg n2, if_neg n3]
    rfl


theorem magic_ne {b0 : UInt8} : Gen.srvBadMagic b0 = true ↔ b0 ≠ 0x7f := by
  unfold Gen.srvBadMagic
  simp only [Gen.magic]
  exact decide_eq_true_iff

theorem srvReserved_iff {b2 b3 : UInt8} : Gen.srvReserved b2 b3 = true ↔ (b2 ≠ 0 ∨ b3 ≠ 0) := by
  unfold Gen.srvReserved
  simp

/-- Everything `serverHandshake` can do, by cases on the request bytes. -/
theorem server_cases (b0 b1 b2 b3 : UInt8) (r : Int) :
    (b0 ≠ 0x7f → serverHandshake b0 b1 b2 b3 r = ⟨none, .error "not a rawsocket handshake"⟩) ∧
    (b0 = 0x7f → (b2 ≠ 0 ∨ b3 ≠ 0) → serverHandshake b0 b1 b2 b3 r =
        ⟨some [0x7f, 0x30, 0, 0], .error "use of reserved bits (unsupported feature)"⟩) ∧
    (b0 = 0x7f → b2 = 0 → b3 = 0 → b1.toNat % 16 = 0 → serverHandshake b0 b1 b2 b3 r =
        ⟨none, .error "illegal serializer value"⟩) ∧
    (b0 = 0x7f → b2 = 0 → b3 = 0 → 4 ≤ b1.toNat % 16 → serverHandshake b0 b1 b2 b3 r =
        ⟨some [0x7f, 0x10, 0, 0], .error "serializer unsupported"⟩) ∧
    (b0 = 0x7f → b2 = 0 → b3 = 0 → 1 ≤ b1.toNat % 16 → b1.toNat % 16 ≤ 3 →
      ∃ y : UInt8, y.toNat = (Gen.fitRecvLimit r).toNat * 16 + b1.toNat % 16 ∧
        serverHandshake b0 b1 b2 b3 r =
          ⟨some [0x7f, y, 0, 0],
           .ok ⟨some (serName (b1.toNat % 16)), ((2 ^ (b1.toNat / 16 + 9) : Nat) : Int),
                ((2 ^ ((Gen.fitRecvLimit r).toNat + 9) : Nat) : Int)⟩⟩) := by
  have hx := and15_toNat b1
  have hb1 := b1.toNat_lt
  have hx16 : (b1 &&& 15).toNat < 16 := by omega
  obtain ⟨c0, c13, c4⟩ := srvSerCase_cases (b1 &&& 15) hx16
  refine ⟨?_, ?_, ?_, ?_, ?_⟩
  · intro h
    unfold serverHandshake
    rw [if_pos (magic_ne.mpr h)]; rfl
  · intro h0 h
    unfold serverHandshake
    rw [if_neg (by rw [magic_ne]; simp [h0]), if_pos (srvReserved_iff.mpr h)]; rfl
  · intro h0 h2 h3 hs
    unfold serverHandshake
    rw [if_neg (by rw [magic_ne]; simp [h0]), if_neg (by rw [srvReserved_iff]; simp [h2, h3])]
    simp only [Gen.srvSerNibble]
    rw [c0 (by omega)]
  · intro h0 h2 h3 hs
    unfold serverHandshake
    rw [if_neg (by rw [magic_ne]; simp [h0]), if_neg (by rw [srvReserved_iff]; simp [h2, h3])]
    simp only [Gen.srvSerNibble]
    rw [c4 (by omega)]
  · intro h0 h2 h3 h1 h3'
    have hfit : (Gen.fitRecvLimit r).toNat ≤ 15 := by
      by_cases hr : 0 < r
      · exact ((fit_spec r).2 hr).1
      · rw [(fit_spec r).1 (by omega)]; decide
    refine ⟨Go.shlU8 (Gen.fitRecvLimit r) 4 ||| (b1 &&& 15), ?_, ?_⟩
    · rw [shlU8_4_or_toNat _ _ (by omega) hx16, hx]
    · unfold serverHandshake
      rw [if_neg (by rw [magic_ne]; simp [h0]), if_neg (by rw [srvReserved_iff]; simp [h2, h3])]
      simp only [Gen.srvSerNibble]
      rw [c13 (by omega) (by omega)]
      simp only [Gen.srvReply, Gen.srvSendLimit, Gen.srvRecvLimit]
      rw [byteToLength_small _ (by rw [shrU8_4_toNat]; omega), byteToLength_small _ hfit, shrU8_4_toNat, hx]
      rfl


theorem cliBadMagic_iff {r0 : UInt8} : Gen.cliBadMagic r0 = true ↔ r0 ≠ 0x7f := by
  unfold Gen.cliBadMagic
  simp only [Gen.magic]
  exact decide_eq_true_iff

theorem fit_le_15 (r : Int) : (Gen.fitRecvLimit r).toNat ≤ 15 := by
  by_cases hr : 0 < r
  · exact ((fit_spec r).2 hr).1
  · rw [(fit_spec r).1 (by omega)]; decide

/-- Everything `clientHandshake` can do, by cases on the reply bytes. -/
theorem client_cases (p : UInt8) (rc : Int) (r0 r1 r2 r3 : UInt8) :
    (r0 ≠ 0x7f → clientHandshake p rc r0 r1 r2 r3 = .error "not a rawsocket handshake") ∧
    (r0 = 0x7f → r1.toNat % 16 = 0 → ∃ e, clientHandshake p rc r0 r1 r2 r3 = .error e) ∧
    (r0 = 0x7f → r1 = 0x10 → clientHandshake p rc r0 r1 r2 r3 = .error "serializer unsupported") ∧
    (r0 = 0x7f → r1 = 0x30 → clientHandshake p rc r0 r1 r2 r3 =
        .error "use of reserved bits (unsupported feature)") ∧
    (r0 = 0x7f → r1.toNat % 16 ≠ 0 → r1.toNat % 16 ≠ p.toNat →
        clientHandshake p rc r0 r1 r2 r3 = .error "serializer mismatch") ∧
    (r0 = 0x7f → r1.toNat % 16 ≠ 0 → r1.toNat % 16 = p.toNat →
        clientHandshake p rc r0 r1 r2 r3 =
          .ok ⟨Gen.cliSerializer p, ((2 ^ (r1.toNat / 16 + 9) : Nat) : Int),
               ((2 ^ ((Gen.fitRecvLimit rc).toNat + 9) : Nat) : Int)⟩) := by
  have hx := and15_toNat r1
  have hr1 := r1.toNat_lt
  have hne0 : r1.toNat % 16 ≠ 0 → Gen.cliIsErrorReply (Gen.cliRepSerializer r1) = false := by
    intro h
    unfold Gen.cliIsErrorReply Gen.cliRepSerializer
    apply decide_eq_false
    intro e
    rw [e] at hx
    exact h hx.symm
  have heq0 : r1.toNat % 16 = 0 → Gen.cliIsErrorReply (Gen.cliRepSerializer r1) = true := by
    intro h
    unfold Gen.cliIsErrorReply Gen.cliRepSerializer
    apply decide_eq_true
    exact UInt8.toNat_inj.mp (by rw [hx, h]; rfl)
  refine ⟨?_, ?_, ?_, ?_, ?_, ?_⟩
  · intro h
    unfold clientHandshake
    simp only []
    rw [if_pos (cliBadMagic_iff.mpr h)]; rfl
  · intro h0 hs
    unfold clientHandshake
    simp only []
    rw [if_neg (by rw [cliBadMagic_iff]; simp [h0]), if_pos (heq0 hs)]
    split <;> exact ⟨_, rfl⟩
  · intro h0 h1
    subst h1
    unfold clientHandshake
    simp only []
    rw [if_neg (by rw [cliBadMagic_iff]; simp [h0]), if_pos (heq0 (by decide))]
    rfl
  · intro h0 h1
    subst h1
    unfold clientHandshake
    simp only []
    rw [if_neg (by rw [cliBadMagic_iff]; simp [h0]), if_pos (heq0 (by decide))]
    rfl
  · intro h0 hs hp
    unfold clientHandshake
    simp only []
    rw [if_neg (by rw [cliBadMagic_iff]; simp [h0]), if_neg (by rw [hne0 hs]; simp)]
    have : Gen.cliMismatch (Gen.cliRepSerializer r1) p = true := by
      unfold Gen.cliMismatch Gen.cliRepSerializer
      apply decide_eq_true
      intro e
      rw [e] at hx
      exact hp hx.symm
    rw [if_pos this]; rfl
  · intro h0 hs hp
    unfold clientHandshake
    simp only []
    rw [if_neg (by rw [cliBadMagic_iff]; simp [h0]), if_neg (by rw [hne0 hs]; simp)]
    have : Gen.cliMismatch (Gen.cliRepSerializer r1) p = false := by
      unfold Gen.cliMismatch Gen.cliRepSerializer
      apply decide_eq_false
      intro e
      apply e
      exact UInt8.toNat_inj.mp (by rw [hx, hp])
    rw [if_neg (by rw [this]; simp)]
    simp only [Gen.cliSendLimit, Gen.cliRecvLimit]
    rw [byteToLength_small _ (by rw [shrU8_4_toNat]; omega), byteToLength_small _ (fit_le_15 rc), shrU8_4_toNat]


theorem cliSerializer_name (p : UInt8) (h1 : 1 ≤ p.toNat) (h3 : p.toNat ≤ 3) :
    Gen.cliSerializer p = some (serName p.toNat) := by
  have : p.toNat = 1 ∨ p.toNat = 2 ∨ p.toNat = 3 := by omega
  rcases this with h | h | h <;> rw [h, u8_eq_of_toNat (by decide) h] <;> rfl

/-- The request byte 1 of a client: length code in the high nibble, protocol in the low one. -/
theorem clientRequest_eq (p : UInt8) (rc : Int) (hp : p.toNat ≤ 15) :
    ∃ b1 : UInt8, clientRequest p rc = [0x7f, b1, 0, 0] ∧
      b1.toNat = (Gen.fitRecvLimit rc).toNat * 16 + p.toNat := by
  have hf := fit_le_15 rc
  refine ⟨Go.shlU8 (Gen.fitRecvLimit rc &&& 15) 4 ||| p, rfl, ?_⟩
  have h15 := and15_toNat (Gen.fitRecvLimit rc)
  rw [shlU8_4_or_toNat _ _ (by omega) (by omega), h15]
  omega

/-- A client speaking protocol 1..3 and a server, back to back: both succeed, with the
    same serializer, and each side's send limit is the other side's receive limit. -/
theorem connect_ok (p : UInt8) (h1 : 1 ≤ p.toNat) (h3 : p.toNat ≤ 3) (rc rs : Int) :
    ∃ y : UInt8, y.toNat = (Gen.fitRecvLimit rs).toNat * 16 + p.toNat ∧
      connect p rc rs =
        (.ok ⟨some (serName p.toNat), ((2 ^ ((Gen.fitRecvLimit rs).toNat + 9) : Nat) : Int),
              ((2 ^ ((Gen.fitRecvLimit rc).toNat + 9) : Nat) : Int)⟩,
         ⟨some [0x7f, y, 0, 0],
          .ok ⟨some (serName p.toNat), ((2 ^ ((Gen.fitRecvLimit rc).toNat + 9) : Nat) : Int),
               ((2 ^ ((Gen.fitRecvLimit rs).toNat + 9) : Nat) : Int)⟩⟩) := by
  obtain ⟨b1, hreq, hb1⟩ := clientRequest_eq p rc (by omega)
  have hfc := fit_le_15 rc
  have hfs := fit_le_15 rs
  obtain ⟨y, hy, hsrv⟩ := (server_cases 0x7f b1 0 0 rs).2.2.2.2 rfl rfl rfl (by omega) (by omega)
  refine ⟨y, by rw [hy]; omega, ?_⟩
  unfold connect
  rw [hreq]
  simp only []
  rw [hsrv]
  simp only [Option.getD_some, clientHandshakeReply]
  have hcli := (client_cases p rc 0x7f y 0 0).2.2.2.2.2 rfl (by omega) (by omega)
  rw [hcli, cliSerializer_name p h1 h3]
  have e1 : b1.toNat % 16 = p.toNat := by omega
  have e2 : b1.toNat / 16 = (Gen.fitRecvLimit rc).toNat := by omega
  have e3 : y.toNat / 16 = (Gen.fitRecvLimit rs).toNat := by omega
  rw [e1, e2, e3]


/-- Whenever the server refuses a request, a client reading what the server wrote before
    closing ends with an error, whatever protocol and limit it has. -/
theorem server_error_client_error (b0 b1 b2 b3 : UInt8) (rs : Int) (p : UInt8) (rc : Int) (e : String)
    (h : (serverHandshake b0 b1 b2 b3 rs).result = .error e) :
    ∃ e', clientHandshakeReply p rc ((serverHandshake b0 b1 b2 b3 rs).reply.getD []) = .error e' := by
  obtain ⟨c1, c2, c3, c4, c5⟩ := server_cases b0 b1 b2 b3 rs
  by_cases h0 : b0 = 0x7f
  · by_cases hr : b2 ≠ 0 ∨ b3 ≠ 0
    · rw [c2 h0 hr]
      exact ⟨_, ((client_cases p rc 0x7f 0x30 0 0).2.2.2.1 rfl rfl)⟩
    · have h2 : b2 = 0 := by
        apply Classical.byContradiction; intro hh; exact hr (Or.inl hh)
      have h3 : b3 = 0 := by
        apply Classical.byContradiction; intro hh; exact hr (Or.inr hh)
      by_cases hs0 : b1.toNat % 16 = 0
      · rw [c3 h0 h2 h3 hs0]; exact ⟨_, rfl⟩
      · by_cases hs4 : 4 ≤ b1.toNat % 16
        · rw [c4 h0 h2 h3 hs4]
          exact ⟨_, ((client_cases p rc 0x7f 0x10 0 0).2.2.1 rfl rfl)⟩
        · obtain ⟨y, _, hy⟩ := c5 h0 h2 h3 (by omega) (by omega)
          rw [hy] at h
          cases h
  · rw [c1 h0]; exact ⟨_, rfl⟩

/-- Client (any protocol byte 0..15) and server back to back succeed together with agreeing
    parameters, or both end with an error. -/
theorem connect_together (p : UInt8) (hp : p.toNat ≤ 15) (rc rs : Int) :
    (∃ c s rep, connect p rc rs = (.ok c, ⟨some rep, .ok s⟩) ∧ c.serializer = s.serializer ∧
        c.sendLimit = s.recvLimit ∧ s.sendLimit = c.recvLimit) ∨
    (∃ e e' rep, connect p rc rs = (.error e, ⟨rep, .error e'⟩)) := by
  by_cases h13 : 1 ≤ p.toNat ∧ p.toNat ≤ 3
  · obtain ⟨y, _, h⟩ := connect_ok p h13.1 h13.2 rc rs
    exact Or.inl ⟨_, _, _, h, rfl, rfl, rfl⟩
  · right
    obtain ⟨b1, hreq, hb1⟩ := clientRequest_eq p rc hp
    have hfc := fit_le_15 rc
    have hsrv : ∃ rep e', serverHandshake 0x7f b1 0 0 rs = ⟨rep, .error e'⟩ := by
      obtain ⟨_, _, c3, c4, _⟩ := server_cases 0x7f b1 0 0 rs
      by_cases h0 : p.toNat = 0
      · exact ⟨_, _, c3 rfl rfl rfl (by omega)⟩
      · exact ⟨_, _, c4 rfl rfl rfl (by omega)⟩
    obtain ⟨rep, e', hs⟩ := hsrv
    obtain ⟨e, he⟩ := server_error_client_error 0x7f b1 0 0 rs p rc e' (by rw [hs])
    refine ⟨e, e', rep, ?_⟩
    unfold connect
    rw [hreq]
    simp only []
    rw [hs] at he ⊢
    simp only [] at he ⊢
    rw [he]

end Nexus.Frame
