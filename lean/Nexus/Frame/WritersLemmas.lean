/-
  Lemmas about interleavings of write calls (helper lemmas for `Nexus.Props.C15`).
-/
import Nexus.Frame.StreamLemmas
import Nexus.Frame.Writers
namespace Nexus.Frame
open Nexus

theorem Merge.nil_right {α : Type} {as cs : List α} (h : Merge as [] cs) : cs = as := by
  generalize hb : ([] : List α) = bs at h
  induction h with
  | nil => rfl
  | left _ ih => rw [ih hb]
  | right _ _ => cases hb

theorem Merge.mem {α : Type} {as bs cs : List α} (h : Merge as bs cs) :
    ∀ c, c ∈ cs → c ∈ as ∨ c ∈ bs := by
  induction h with
  | nil => intro c hc; cases hc
  | left _ ih =>
    intro c hc
    rcases List.mem_cons.mp hc with e | hc
    · exact Or.inl (e ▸ List.mem_cons_self)
    · rcases ih c hc with h | h
      · exact Or.inl (List.mem_cons_of_mem _ h)
      · exact Or.inr h
  | right _ ih =>
    intro c hc
    rcases List.mem_cons.mp hc with e | hc
    · exact Or.inr (e ▸ List.mem_cons_self)
    · rcases ih c hc with h | h
      · exact Or.inl h
      · exact Or.inr (List.mem_cons_of_mem _ h)

/-- Each goroutine's calls appear in the log in the order it made them. -/
theorem Merge.filter {α : Type} (p : α → Bool) {as bs cs : List α} (h : Merge as bs cs)
    (ha : ∀ a, a ∈ as → p a = true) (hb : ∀ b, b ∈ bs → p b = false) :
    cs.filter p = as ∧ cs.filter (fun x => !p x) = bs := by
  induction h with
  | nil => exact ⟨rfl, rfl⟩
  | @left a as bs cs _ ih =>
    have := ih (fun x hx => ha x (List.mem_cons_of_mem _ hx)) hb
    have pa := ha a List.mem_cons_self
    simp [pa, this.1, this.2]
  | @right b as bs cs _ ih =>
    have := ih ha (fun x hx => hb x (List.mem_cons_of_mem _ hx))
    have pb := hb b List.mem_cons_self
    simp [pb, this.1, this.2]

theorem Merge.flatMap_left {α β : Type} (f : α → List β) {as bs cs : List α} (h : Merge as bs cs)
    (hb : ∀ b, b ∈ bs → f b = []) : cs.flatMap f = as.flatMap f := by
  induction h with
  | nil => rfl
  | left _ ih => simp [List.flatMap_cons, ih hb]
  | @right b as bs cs _ ih =>
    rw [List.flatMap_cons, hb b List.mem_cons_self, List.nil_append]
    exact ih (fun x hx => hb x (List.mem_cons_of_mem _ hx))

theorem wire_senderCalls (sl : Int) (ps : List (List UInt8)) :
    wire (senderCalls sl ps) = (ps.filterMap (frame sl)).flatten := by
  unfold wire senderCalls
  rw [List.map_map]
  have : ((fun (c : WriteCall) => c.bytes) ∘ fun b => (⟨.sender, b⟩ : WriteCall)) = id := rfl
  rw [this, List.map_id]
  induction ps with
  | nil => rfl
  | cons p ps ih =>
    unfold frame
    cases h : frameWrites sl p with
    | none => simp [h]; exact ih
    | some ws =>
      simp only [List.filterMap_cons, h, Option.map_some, List.flatten_cons, List.flatten_append]
      rw [ih]
      rfl

/-- A unit of the connection when frames are written atomically (under a lock). -/
inductive WUnit where
  | msg (payload : List UInt8)
  | pong (p : Pong)

def WUnit.bytes (sl : Int) : WUnit → List UInt8
  | .msg p => (frame sl p).getD []
  | .pong q => pongFrame q

section
variable {M : Type} (de : List UInt8 → Option M) (rl : Int)

def WUnit.events : WUnit → List (Ev M)
  | .msg p => payloadEvents de p
  | .pong _ => []

def WUnit.ok (sl : Int) : WUnit → Prop
  | .msg p => fits sl p = true
  | .pong q => q.wellFormed rl

theorem readerCase_pongType : Gen.readerCase (Gen.frameType Gen.pongType) = .pong := by decide

theorem run_unit (sl : Int) (hsl : sl ≤ rl) (u : WUnit) (hu : u.ok rl sl) (rest : List UInt8) :
    run de rl .hdr0 (u.bytes sl ++ rest) =
      (u.events de ++ (run de rl .hdr0 rest).1, (run de rl .hdr0 rest).2) := by
  cases u with
  | msg p =>
    have := run_frames de rl sl hsl [p] rest
    have hf : fits sl p = true := hu
    obtain ⟨a, b, c, hfr, _⟩ := frame_some sl p hf
    simp only [List.filterMap_cons, hfr, List.filterMap_nil, List.flatten_cons, List.flatten_nil,
      List.append_nil, List.filter_cons, hf, if_true, List.filter_nil, List.flatMap_cons,
      List.flatMap_nil] at this
    simp only [WUnit.bytes, hfr, Option.getD_some, WUnit.events]
    exact this
  | pong q =>
    obtain ⟨hn, hle⟩ : q.wellFormed rl := hu
    simp only [WUnit.bytes, pongFrame, WUnit.events, List.cons_append, List.nil_append]
    rw [run_pong_frame de rl _ _ _ _ _ rest readerCase_pongType hn hle]

theorem run_units (sl : Int) (hsl : sl ≤ rl) (us : List WUnit) (hu : ∀ u, u ∈ us → u.ok rl sl)
    (rest : List UInt8) :
    run de rl .hdr0 (us.flatMap (WUnit.bytes sl) ++ rest) =
      (us.flatMap (WUnit.events de) ++ (run de rl .hdr0 rest).1, (run de rl .hdr0 rest).2) := by
  induction us with
  | nil => simp
  | cons u us ih =>
    simp only [List.flatMap_cons, List.append_assoc]
    rw [run_unit de rl sl hsl u (hu u List.mem_cons_self),
      ih (fun x hx => hu x (List.mem_cons_of_mem _ hx))]

end
theorem Merge.of_map {α β : Type} (f : α → β) : ∀ {as bs : List α} {cs' : List β},
    Merge (as.map f) (bs.map f) cs' → ∃ cs, cs' = cs.map f ∧ Merge as bs cs := by
  intro as bs cs' h
  generalize ha : as.map f = as' at h
  generalize hb : bs.map f = bs' at h
  induction h generalizing as bs with
  | nil =>
    cases as with
    | nil =>
      cases bs with
      | nil => exact ⟨[], rfl, .nil⟩
      | cons _ _ => simp at hb
    | cons _ _ => simp at ha
  | left _ ih =>
    cases as with
    | nil => simp at ha
    | cons a as =>
      simp only [List.map_cons, List.cons.injEq] at ha
      obtain ⟨cs, e, hm⟩ := ih ha.2 hb
      exact ⟨a :: cs, by simp [e, ha.1], .left hm⟩
  | right _ ih =>
    cases bs with
    | nil => simp at hb
    | cons b bs =>
      simp only [List.map_cons, List.cons.injEq] at hb
      obtain ⟨cs, e, hm⟩ := ih ha hb.2
      exact ⟨b :: cs, by simp [e, hb.1], .right hm⟩

/-- The write call that carries a whole unit. -/
def WUnit.call (sl : Int) : WUnit → WriteCall
  | .msg p => ⟨.sender, (frame sl p).getD []⟩
  | .pong q => ⟨.reader, pongFrame q⟩

theorem WUnit.call_bytes (sl : Int) (u : WUnit) : (u.call sl).bytes = u.bytes sl := by
  cases u <;> rfl

/-- With the one-call shape, the sender's calls are exactly the frames of the messages that fit. -/
theorem senderCalls_units (sl : Int) (ps : List (List UInt8)) :
    senderCalls sl ps = ((ps.filter (fits sl)).map WUnit.msg).map (WUnit.call sl) := by
  unfold senderCalls
  induction ps with
  | nil => rfl
  | cons p ps ih =>
    cases hf : fits sl p with
    | false =>
      have : frameWrites sl p = none := by
        unfold frameWrites; unfold fits at hf
        rw [if_pos (by simpa using hf)]
      simp only [List.filterMap_cons, this, List.filter_cons, hf]
      exact ih
    | true =>
      have hw : frameWrites sl p = some [(frame sl p).getD []] := by
        unfold frame frameWrites; unfold fits at hf
        rw [if_neg (by simpa using hf)]
        simp [Gen.senderWriteParts]
      simp only [List.filterMap_cons, hw, List.filter_cons, hf, if_true, List.flatten_cons,
        List.map_cons, List.cons_append, List.nil_append]
      rw [ih]
      rfl

theorem readerCalls_units (sl : Int) (qs : List Pong) :
    readerCalls qs = (qs.map WUnit.pong).map (WUnit.call sl) := by
  unfold readerCalls
  induction qs with
  | nil => rfl
  | cons q qs ih =>
    rw [List.flatMap_cons, ih]
    simp [pongCalls, Gen.pongWriteParts, writePart, WUnit.call, pongFrame]

/-- The sender after cancellation, when it drains: every queued message's calls, in order,
    whatever the scheduler's picks. -/
theorem afterCancel_drains {M : Type} (w : M → List WriteCall) (oracle : List Bool) (q : List M) :
    afterCancel true w oracle q = q.flatMap w := by
  induction q generalizing oracle with
  | nil => cases oracle <;> rfl
  | cons m q ih =>
    cases oracle with
    | nil => rfl
    | cons o os =>
      cases o with
      | true => simp [afterCancel, ih os]
      | false => rfl

theorem wire_append (a b : List WriteCall) : wire (a ++ b) = wire a ++ wire b := by
  simp [wire]

/-- All the calls for a queue of messages put the messages' frames on the wire. -/
theorem wire_messageCalls {M : Type} (ser : M → Option (List UInt8)) (sl : Int) (q : List M) :
    wire (q.flatMap (messageCalls ser sl)) = sendAll ser sl q := by
  unfold sendAll
  induction q with
  | nil => rfl
  | cons m q ih =>
    rw [List.flatMap_cons, wire_append, ih]
    unfold messageCalls
    cases hs : ser m with
    | none => simp [wire, hs]
    | some p =>
      simp only [wire_senderCalls, List.filterMap_cons, hs, Option.bind_some]
      cases frame sl p <;> simp

end Nexus.Frame
