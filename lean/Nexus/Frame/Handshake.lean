/-
  The rawsocket handshake, both sides, as pure functions of the four bytes
  read and the configured receive limit.  Mirrors `serverHandshake` and
  `clientHandshake` of transport/rawsocketpeer.go decision by decision; every
  condition, case table, reply and limit computation comes from the generated
  `Nexus.Gen` (the order of the checks is the order in which `gen frame`
  found them in the source — it fails when that order changes).

  What is not modelled: I/O errors of `conn.Write` / `io.ReadFull` other than
  "the other side closed before sending 4 bytes" (`clientHandshakeReply` on the client side,
  `acceptRawSocket` on the server side).  `acceptRawSocket` / `connectRawSocketPeer` are the
  exported wrappers `AcceptRawSocket` / `ConnectRawSocketPeer` as far as they matter here: they
  close the connection exactly when the handshake returned an error (HAND-WRITTEN from
  rawsocketpeer.go:120-125 and :133-140; tied by the `shake` / `chs` sections of the family).

  Core-only.
-/
import Nexus.Gen.Frame

namespace Nexus.Frame
open Nexus

/-- What `newRawSocketPeer` is called with. `serializer = none` is Go's nil
    serializer (only reachable with a protocol byte outside 1..3, which
    `getProtoByte` never produces). -/
structure PeerCfg where
  serializer : Option String
  sendLimit : Int
  recvLimit : Int
  deriving Repr, DecidableEq

/-- Result of a handshake: a peer, or `nil, errors.New(msg)`. -/
inductive HsResult where
  | ok (cfg : PeerCfg)
  | error (msg : String)
  deriving Repr, DecidableEq

/-- Server side: the bytes written to the connection before returning (none =
    nothing is written; `AcceptRawSocket` then closes the connection) and the result. -/
structure SrvOut where
  reply : Option (List UInt8)
  result : HsResult
  deriving Repr, DecidableEq

/-- `serverHandshake` on the request bytes `b0 b1 b2 b3` with `recvLimit` configured. -/
def serverHandshake (b0 b1 b2 b3 : UInt8) (recvLimit : Int) : SrvOut :=
  if Gen.srvBadMagic b0 then ⟨Gen.srvBadMagicReply, .error Gen.srvBadMagicErr⟩
  else if Gen.srvReserved b2 b3 then ⟨Gen.srvReservedReply, .error Gen.srvReservedErr⟩
  else
    let serialization := Gen.srvSerNibble b1
    match Gen.srvSerCase serialization with
    | .reject reply err => ⟨reply, .error err⟩
    | .accept name =>
      let maxRecvLen := Gen.fitRecvLimit recvLimit
      ⟨some (Gen.srvReply maxRecvLen serialization),
       .ok ⟨some name, Gen.srvSendLimit b1, Gen.srvRecvLimit maxRecvLen⟩⟩

/-- The four bytes a client sends first. -/
def clientRequest (protocol : UInt8) (recvLimit : Int) : List UInt8 :=
  Gen.cliRequest (Gen.fitRecvLimit recvLimit) protocol

/-- `fmt.Errorf(format, code)` for the one format that occurs ("… %d"). -/
def fmtCode (format : String) (code : Nat) : String := format.replace "%d" (toString code)

/-- `clientHandshake` after the request was written, on the reply bytes `r0 r1 r2 r3`
    (the client does not look at `r2`, `r3`). -/
def clientHandshake (protocol : UInt8) (recvLimit : Int) (r0 r1 _r2 _r3 : UInt8) : HsResult :=
  let maxRecvLen := Gen.fitRecvLimit recvLimit
  if Gen.cliBadMagic r0 then .error Gen.cliBadMagicErr
  else
    let repSerializer := Gen.cliRepSerializer r1
    if Gen.cliIsErrorReply repSerializer then
      let code := Gen.cliErrCode r1
      match Gen.cliErrCase code with
      | some e => .error e
      | none => .error (fmtCode Gen.cliErrDefaultFmt code.toNat)
    else if Gen.cliMismatch repSerializer protocol then .error Gen.cliMismatchErr
    else .ok ⟨Gen.cliSerializer protocol, Gen.cliSendLimit r1, Gen.cliRecvLimit maxRecvLen⟩

/-- The client on everything the server wrote before it stopped writing:
    fewer than four bytes then end of stream is `io.ReadFull`'s EOF error. -/
def clientHandshakeReply (protocol : UInt8) (recvLimit : Int) : List UInt8 → HsResult
  | r0 :: r1 :: r2 :: r3 :: _ => clientHandshake protocol recvLimit r0 r1 r2 r3
  | [] => .error "EOF"
  | _ => .error "unexpected EOF"

/-- Client and server wired back to back: the client (protocol, its recvLimit)
    dials a server configured with `srvLimit`. -/
def connect (protocol : UInt8) (cliLimit srvLimit : Int) : HsResult × SrvOut :=
  match clientRequest protocol cliLimit with
  | [b0, b1, b2, b3] =>
    let s := serverHandshake b0 b1 b2 b3 srvLimit
    (clientHandshakeReply protocol cliLimit (s.reply.getD []), s)
  | _ => (.error "unreachable: the request has four bytes", ⟨none, .error "unreachable"⟩)

def HsResult.isOk : HsResult → Bool
  | .ok _ => true
  | .error _ => false

/-- What `AcceptRawSocket` did: the bytes written, the result, and whether it closed the
    connection (`if err != nil { _ = conn.Close(); return nil, err }`). -/
structure AcceptOut where
  reply : Option (List UInt8)
  result : HsResult
  connClosed : Bool
  deriving Repr, DecidableEq

/-- `AcceptRawSocket` on everything the client wrote before it stopped writing: with fewer than
    four bytes and then the end of the stream, `io.ReadFull(conn, buf[:])` fails (`io.EOF` when
    nothing came, `io.ErrUnexpectedEOF` after 1..3 bytes) and `serverHandshake` returns that
    error before looking at a byte or writing one.  Bytes after the fourth are not read by the
    handshake (they are the first frames). -/
def acceptRawSocket (recvLimit : Int) : List UInt8 → AcceptOut
  | b0 :: b1 :: b2 :: b3 :: _ =>
    let o := serverHandshake b0 b1 b2 b3 recvLimit
    ⟨o.reply, o.result, !o.result.isOk⟩
  | [] => ⟨none, .error "EOF", true⟩
  | _ => ⟨none, .error "unexpected EOF", true⟩

/-- `ConnectRawSocketPeer` once the connection is dialled, on everything the server wrote before it
    stopped writing: the result, and whether the client closed the connection. -/
def connectRawSocketPeer (protocol : UInt8) (recvLimit : Int) (reply : List UInt8) : HsResult × Bool :=
  let r := clientHandshakeReply protocol recvLimit reply
  (r, !r.isOk)

end Nexus.Frame
