import Driver.Main
