/-
  nexus-driver wpdbin: line protocol for the model functions of
  `Nexus/Codec/WpDMsgPackSigned.lean` (audit C14-c3): the bytes the codec writes for SIGNED Go
  integers and for `float32`.  Value text as in `Driver/Codec.lean`.

  Requests (one per line) → answers:
    encint <decimal>               → ok <hex>        MsgPack.encIntSigned (EncodeInt of an int64)
    encs <value>                   → ok <hex> | invalid
                                     MsgPack.encSigned (every integer of the int64 range signed)
    encf32 <msgpack|cbor> <8 hex>  → ok <hex>        encFloat32 of the binary32 bit pattern
    cborint <decimal>              → ok <hex>        CBOR.encIntSigned (= CBOR.encInt)
-/
import Driver.Codec
import Nexus.Codec.WpDMsgPackSigned

namespace Driver.WpDBin

open Nexus.Codec Driver.Codec

def parseInt (s : String) : Option Int :=
  match s.toList with
  | '-' :: r => (String.ofList r).toNat?.map fun n => -(n : Int)
  | _ => s.toNat?.map fun n => (n : Int)

def handle (line : String) : String :=
  match line.splitOn " " with
  | ["encint", d] =>
    match parseInt d with
    | some i => "ok " ++ hexOfBytes (MsgPack.encIntSigned i)
    | none => "bad-request"
  | ["cborint", d] =>
    match parseInt d with
    | some i => "ok " ++ hexOfBytes (CBOR.encIntSigned i)
    | none => "bad-request"
  | ["encs", v] =>
    match parse v with
    | some v => if validB MsgPack.maxLen v then "ok " ++ hexOfBytes (MsgPack.encSigned v) else "invalid"
    | none => "bad-request"
  | ["encf32", f, h] =>
    match bytesOfHex h with
    | some b =>
      if b.length == 4 then
        let w := beNat b
        match f with
        | "msgpack" => "ok " ++ hexOfBytes (MsgPack.encFloat32 w)
        | "cbor" => "ok " ++ hexOfBytes (CBOR.encFloat32 w)
        | _ => "bad-request"
      else "bad-request"
    | none => "bad-request"
  | _ => "bad-request"

partial def loop (h : IO.FS.Stream) (out : IO.FS.Stream) : IO Unit := do
  let line ← h.getLine
  if line.isEmpty then return ()
  out.putStrLn (handle (String.ofList (line.toList.reverse.dropWhile (fun c => c == '\n' || c == '\r')).reverse))
  loop h out

def run (_args : List String) : IO UInt32 := do
  let out ← IO.getStdout
  loop (← IO.getStdin) out
  out.flush
  return 0

end Driver.WpDBin
