/-
  nexus-driver <mode>: reads one operation per line on stdin, answers each with
  one line on stdout.  Each mode lives in its own module `Driver.<Mode>` that
  exposes `run : List String → IO UInt32`.
-/
import Driver.Echo
import Driver.L2
import Driver.UriId
import Driver.Codec
import Driver.Auth
import Driver.Client
import Driver.Frame
import Driver.WpDBin

def main (args : List String) : IO UInt32 := do
  match args with
  | "echo" :: rest => Driver.Echo.run rest
  | "l2" :: rest => Driver.L2.run rest
  | "uriid" :: rest => Driver.UriId.run rest
  | "codec" :: rest => Driver.Codec.run rest
  | "auth" :: rest => Driver.Auth.run rest
  | "client" :: rest => Driver.Client.run rest
  | "frame" :: rest => Driver.Frame.run rest
  | "wpdbin" :: rest => Driver.WpDBin.run rest
  | m :: _ => do IO.eprintln s!"nexus-driver: unknown mode {m}"; return 2
  | [] => do IO.eprintln "usage: nexus-driver <mode> [args]"; return 2
