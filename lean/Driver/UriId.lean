/-
  nexus-driver uriid: line protocol for the C19 correspondence family (harness/uriid).

  Byte strings travel as lowercase hex, the empty string as `-`.

    valid <0|1> <hexMatch> <hexURI>     -> 1 | 0        executable matcher on the GENERATED regex chosen by the GENERATED dispatch
    rule <0|1> <hexMatch> <hexURI>      -> 1 | 0        executable component rule (Nexus.Uri.ruleB)
    prefix <hexURI> <hexPrefix>         -> 1 | 0
    wild <hexURI> <hexWildcard>         -> 1 | 0
    asid <kind> <value>                 -> <id> | none  kind: int64 int int32 (signed decimal) | uint64 uint uint32 id (decimal) | float64 float32 (hex bit pattern)
    isnew <last> <id>                   -> 1 | 0
    update <last> <id>                  -> <newLast> <1|0>
    next <state>                        -> <newState> <id>
    nextn <state> <k>                   -> <id>,<id>,...   k successive calls of Next from generator state <state>
    recv <id>,<id>,...                  -> <bits> <finalLast>  UpdateLastRecvID over the sequence on a fresh session
    global <r>                          -> <id>
    consts                              -> <MaxID> <deltaID>
    hashes                              -> same | changed:<name>,<name>...
  Unparseable request -> `error ...`.
-/
import Nexus.Uri.Match
import Nexus.Ids.Model

namespace Driver.UriId
open Nexus Nexus.Uri Nexus.Ids

def hexVal (c : Char) : Option Nat :=
  if '0' ≤ c ∧ c ≤ '9' then some (c.toNat - '0'.toNat)
  else if 'a' ≤ c ∧ c ≤ 'f' then some (c.toNat - 'a'.toNat + 10)
  else if 'A' ≤ c ∧ c ≤ 'F' then some (c.toNat - 'A'.toNat + 10)
  else none

def hexBytesAux : List Char → List UInt8 → Option (List UInt8)
  | [], acc => some acc.reverse
  | [_], _ => none
  | a :: b :: rest, acc =>
    match hexVal a, hexVal b with
    | some x, some y => hexBytesAux rest (UInt8.ofNat (16 * x + y) :: acc)
    | _, _ => none

def hexBytes (s : String) : Option (List UInt8) :=
  if s = "-" then some [] else hexBytesAux s.toList []

def hexNat (s : String) : Option Nat :=
  if s.isEmpty then none else
  s.toList.foldl (fun acc c => match acc, hexVal c with
    | some a, some v => some (16 * a + v)
    | _, _ => none) (some 0)

def bit (b : Bool) : String := if b then "1" else "0"

def parseBit (s : String) : Option Bool :=
  if s = "1" then some true else if s = "0" then some false else none

def inI (i lo hi : Int) : Bool := lo ≤ i && i ≤ hi

def parseNum (kind val : String) : Option GoNum :=
  match kind with
  | "int64" => (val.toInt?).bind fun i => if inI i (-(2^63)) (2^63 - 1) then some (.int64 (Int64.ofInt i)) else none
  | "int" => (val.toInt?).bind fun i => if inI i (-(2^63)) (2^63 - 1) then some (.int (Int64.ofInt i)) else none
  | "int32" => (val.toInt?).bind fun i => if inI i (-(2^31)) (2^31 - 1) then some (.int32 (Int32.ofInt i)) else none
  | "uint64" => (val.toNat?).bind fun n => if n < 2^64 then some (.uint64 (UInt64.ofNat n)) else none
  | "uint" => (val.toNat?).bind fun n => if n < 2^64 then some (.uint (UInt64.ofNat n)) else none
  | "id" => (val.toNat?).bind fun n => if n < 2^64 then some (.id (UInt64.ofNat n)) else none
  | "uint32" => (val.toNat?).bind fun n => if n < 2^32 then some (.uint32 (UInt32.ofNat n)) else none
  | "float64" => (hexNat val).bind fun n => if n < 2^64 then some (.float64 (UInt64.ofNat n)) else none
  | "float32" => (hexNat val).bind fun n => if n < 2^32 then some (.float32 (UInt32.ofNat n)) else none
  | _ => none

def parseU64 (s : String) : Option UInt64 :=
  (s.toNat?).bind fun n => if n < 2^64 then some (UInt64.ofNat n) else none

def changedHashes : List String :=
  ((Nexus.Uri.reconciledHashes ++ Nexus.Ids.reconciledHashes).filter (fun x => x.2.1 != x.2.2)).map (·.1)

def nextN : Nat → UInt64 → List String → List String
  | 0, _, acc => acc.reverse
  | k + 1, st, acc =>
    let r := Gen.idGenNext st
    nextN k r.1 (toString r.2.toNat :: acc)

def parseIds (s : String) : Option (List UInt64) :=
  (s.splitOn ",").foldr (fun x acc => match parseU64 x, acc with
    | some v, some l => some (v :: l)
    | _, _ => none) (some [])

def answer (line : String) : String :=
  let err := "error cannot parse: " ++ line
  match line.splitOn " " with
  | ["valid", st, m, u] =>
    match parseBit st, hexBytes m, hexBytes u with
    | some st, some m, some u => bit (validURI st m u)
    | _, _, _ => err
  | ["rule", st, m, u] =>
    match parseBit st, hexBytes m, hexBytes u with
    | some st, some m, some u => bit (ruleB st (policyOf m) u)
    | _, _, _ => err
  | ["prefix", u, p] =>
    match hexBytes u, hexBytes p with
    | some u, some p => bit (prefixMatch u p)
    | _, _ => err
  | ["wild", u, w] =>
    match hexBytes u, hexBytes w with
    | some u, some w => bit (wildcardMatch u w)
    | _, _ => err
  | ["asid", kind, val] =>
    match parseNum kind val with
    | some n => match asID n with
      | some id => toString id.toNat
      | none => "none"
    | none => err
  | ["isnew", last, id] =>
    match parseU64 last, parseU64 id with
    | some last, some id => bit (Gen.isNewRecvID last id)
    | _, _ => err
  | ["update", last, id] =>
    match parseU64 last, parseU64 id with
    | some last, some id =>
      let r := Gen.updateLastRecvID last id
      s!"{r.1.toNat} {bit r.2}"
    | _, _ => err
  | ["next", st] =>
    match parseU64 st with
    | some st =>
      let r := Gen.idGenNext st
      s!"{r.1.toNat} {r.2.toNat}"
    | none => err
  | ["nextn", st, k] =>
    match parseU64 st, k.toNat? with
    | some st, some k => ",".intercalate (nextN k st [])
    | _, _ => err
  | ["recv", ids] =>
    match parseIds ids with
    | some ids =>
      let r := recvRun 0 ids
      s!"{String.join (r.1.map bit)} {r.2.toNat}"
    | none => err
  | ["global", r] =>
    match r.toInt? with
    | some i => if inI i (-(2^63)) (2^63 - 1) then toString (Gen.globalID (Int64.ofInt i)).toNat else err
    | none => err
  | ["consts"] => s!"{Gen.MaxID} {Gen.deltaID}"
  | ["hashes"] => if changedHashes.isEmpty then "same" else "changed:" ++ ",".intercalate changedHashes
  | _ => err

partial def loop (hin hout : IO.FS.Stream) : IO Unit := do
  let line ← hin.getLine
  if line.isEmpty then return ()
  hout.putStrLn (answer line.trimAsciiEnd.toString)
  loop hin hout

def run (_args : List String) : IO UInt32 := do
  let hin ← IO.getStdin
  let hout ← IO.getStdout
  loop hin hout
  hout.flush
  return 0

end Driver.UriId
