/-
  nexus-driver auth: the attach / authentication model (property C09) behind a line protocol.

  in  (one scenario per line):
    {"router":{"realms":[REALM..],"template":REALM|null,"closing":b},
     "keystores":{name:KS..},
     "handshakes":[HS..]}
    REALM = {"uri":s,"auths":[AUTH..],"anonymousAuth":b,"requireLocalAuth":b,"strict":b,
             "metaStrict":b,"metaInc":[s..]}
    AUTH  = {"kind":"anonymous","role":s}
          | {"kind":"ticket"|"wampcra"|"cryptosign","ks":name,"timeout":ms}
          | {"kind":"custom","method":s,"ok":{details}}      (no "ok": the authenticator refuses)
    KS    = {"provider":s,"users":{authid:{"role":s|null,"keys":{method:hex},"nilkeys":[method..],
             "salt":s,"keylen":n,"iters":n}},
             "bypass":null|{"already":[authid..],"onWelcomeErr":b,"onWelcomeSet":{k:v..}}}
    HS    = {"local":b,"transport":{..},"blocked":b,"realmClosing":b,"routerClosed":b,
             "arrivals":[{"d":ms,"m":["hello",realm,{details}]|["auth",sig,{extra}]|["other",code]|["close"]}..],
             "oracle":{"sid":n,"authidRand":n,"keyNonce":s|null,"keyNow":s,"chalNonce":s|null,"now":s,
                       "csChallenge":hex|null,"b64":{sig:hex|null},"hexd":{sig:hex|null},
                       "hmac":[[keyhex,msg,outhex]..],"open":[[signedhex,pubhex,outhex|null]..]}}
  out: {"results":[{"outcome":"welcome"|"abort"|"dropped","reason":s,"why":s,"sid":n,
                    "welcome":{..},"session":{..},"observed":{..},"sent":[..],"joined":b,
                    "created":b,"rest":n}..]}
       The realms of the router are threaded through the handshakes (a template-created realm stays).

  in  {"facts":true} → the regenerated source facts (checksChallenge, firstMatch, hashes ...).
-/
import Lean.Data.Json
import Nexus.Auth.Model

namespace Driver.Auth
open Lean Nexus Nexus.Auth

partial def toWVal : Json → WVal
  | .null => .null
  | .bool b => .bool b
  | .num n => .int n.mantissa
  | .str s => .str s
  | .arr a => .list (a.toList.map toWVal)
  | .obj o => .dict (o.toList.map fun (k, v) => (k, toWVal v))

partial def ofWVal : WVal → Json
  | .null => .null
  | .bool b => .bool b
  | .int i => .num (JsonNumber.fromInt i)
  | .str s => .str s
  | .list l => .arr (l.map ofWVal).toArray
  | .dict d => Json.mkObj (d.map fun (k, v) => (k, ofWVal v))

def dictJ (d : Dict) : Json := ofWVal (.dict d)

def getBool (j : Json) (k : String) (dflt : Bool := false) : Bool :=
  match j.getObjVal? k with | .ok (.bool b) => b | _ => dflt
def getNat (j : Json) (k : String) (dflt : Nat := 0) : Nat :=
  match j.getObjVal? k with | .ok (.num n) => n.mantissa.toNat | _ => dflt
def getInt (j : Json) (k : String) : Int :=
  match j.getObjVal? k with | .ok (.num n) => n.mantissa | _ => 0
def getStr (j : Json) (k : String) (dflt : String := "") : String :=
  match j.getObjVal? k with | .ok (.str s) => s | _ => dflt
def getStr? (j : Json) (k : String) : Option String :=
  match j.getObjVal? k with | .ok (.str s) => some s | _ => none
def getArr (j : Json) (k : String) : List Json :=
  match j.getObjVal? k with | .ok (.arr a) => a.toList | _ => []
def getObj (j : Json) (k : String) : List (String × Json) :=
  match j.getObjVal? k with | .ok (.obj o) => o.toList | _ => []
def getDict (j : Json) (k : String) : Dict :=
  match j.getObjVal? k with
  | .ok v => match toWVal v with | .dict d => d | _ => []
  | _ => []
def strList (js : List Json) : List String :=
  js.filterMap fun x => match x with | .str s => some s | _ => none

def hexVal (c : Char) : Option Nat :=
  if '0' ≤ c ∧ c ≤ '9' then some (c.toNat - '0'.toNat)
  else if 'a' ≤ c ∧ c ≤ 'f' then some (c.toNat - 'a'.toNat + 10)
  else if 'A' ≤ c ∧ c ≤ 'F' then some (c.toNat - 'A'.toNat + 10)
  else none

def unhexAux : List Char → Option Bytes
  | [] => some []
  | [_] => none
  | a :: b :: rest => do
    let x ← hexVal a
    let y ← hexVal b
    let r ← unhexAux rest
    pure (UInt8.ofNat (x * 16 + y) :: r)

def unhex (s : String) : Bytes := (unhexAux s.toList).getD []

def optHex (j : Json) : Option Bytes :=
  match j with
  | .str s => some (unhex s)
  | _ => none

def toKeyStore (j : Json) : KeyStore :=
  let users := getObj j "users"
  let user (authid : String) : Option Json := (users.find? (fun p => p.1 == authid)).map (·.2)
  let bypass : Option Bypass :=
    match j.getObjVal? "bypass" with
    | .ok (.obj o) =>
      let b := Json.obj o
      let already := strList (getArr b "already")
      let err := getBool b "onWelcomeErr"
      let sets := getDict b "onWelcomeSet"
      some { alreadyAuth := fun authid _ => already.contains authid
             onWelcome := fun _ w _ =>
               if err then .error "onWelcome" else .ok (sets.foldl (fun acc kv => acc.set kv.1 kv.2) w) }
    | _ => none
  { provider := getStr j "provider"
    authRole := fun authid =>
      match user authid with
      | some u => match getStr? u "role" with | some r => .ok r | none => .error "no role"
      | none => .error "no such user"
    authKey := fun authid method =>
      match user authid with
      | some u =>
        if (strList (getArr u "nilkeys")).contains method then .ok none else
        match (getObj u "keys").find? (fun p => p.1 == method) with
        | some (_, .str h) => .ok (some (unhex h))
        | _ => .error "no key"
      | none => .error "no such user"
    passwordInfo := fun authid =>
      match user authid with
      | some u => (getStr u "salt", getInt u "keylen", getInt u "iters")
      | none => ("", 0, 0)
    bypass := bypass }

def emptyKS : KeyStore :=
  { provider := "", authRole := fun _ => .error "", authKey := fun _ _ => .error "",
    passwordInfo := fun _ => ("", 0, 0), bypass := none }

def toAuthr (kss : List (String × KeyStore)) (j : Json) : Authr :=
  let ks := ((kss.find? (fun p => p.1 == getStr j "ks")).map (·.2)).getD emptyKS
  let t := getNat j "timeout"
  match getStr j "kind" with
  | "anonymous" => .anonymous (getStr j "role")
  | "ticket" => .ticket ks t
  | "wampcra" => .wampcra ks t
  | "cryptosign" => .cryptosign ks t
  | _ =>
    let res : Except String Dict :=
      match j.getObjVal? "ok" with
      | .ok v => match toWVal v with | .dict d => .ok d | _ => .error "refused"
      | _ => .error "refused"
    .custom (getStr j "method") (fun _ _ => res)

def toRealm (kss : List (String × KeyStore)) (j : Json) : RealmCfg :=
  { uri := getStr j "uri"
    authenticators := (getArr j "auths").map (toAuthr kss)
    anonymousAuth := getBool j "anonymousAuth"
    requireLocalAuth := getBool j "requireLocalAuth"
    strictURI := getBool j "strict"
    metaStrict := getBool j "metaStrict"
    metaInc := strList (getArr j "metaInc")
    closing := false }

def toMsg (j : Json) : ClientEv :=
  match j with
  | .arr a =>
    match a.toList with
    | .str "hello" :: .str realm :: d :: _ =>
      .msg (.hello realm (match toWVal d with | .dict x => x | _ => []))
    | .str "auth" :: .str sig :: rest =>
      .msg (.authenticate sig (match rest with | d :: _ => (match toWVal d with | .dict x => x | _ => []) | [] => []))
    | .str "other" :: .num n :: _ => .msg (.other n.mantissa.toNat)
    | _ => .close
  | _ => .close

def toOracle (j : Json) : Oracle :=
  let b64 := getObj j "b64"
  let hexd := getObj j "hexd"
  let hm := (getArr j "hmac").filterMap fun e =>
    match e with
    | .arr #[.str k, .str m, .str o] => some (unhex k, m, unhex o)
    | _ => none
  let op := (getArr j "open").filterMap fun e =>
    match e with
    | .arr #[.str s, .str p, o] => some (unhex s, unhex p, optHex o)
    | _ => none
  { sid := getNat j "sid"
    authidRand := getNat j "authidRand"
    keyNonce := getStr? j "keyNonce"
    keyNow := getStr j "keyNow"
    chalNonce := getStr? j "chalNonce"
    now := getStr j "now"
    csChallenge := match j.getObjVal? "csChallenge" with | .ok v => optHex v | _ => none
    b64decode := fun s => match b64.find? (fun p => p.1 == s) with | some (_, v) => optHex v | none => none
    hexdecode := fun s => match hexd.find? (fun p => p.1 == s) with | some (_, v) => optHex v | none => none
    hmac := fun k m =>
      match hm.find? (fun e => e.1 == k && e.2.1 == m) with
      | some e => e.2.2
      | none => [0xff]          -- unknown key: never equals what the harness sends
    signOpen := fun s p =>
      match op.find? (fun e => e.1 == s && e.2.1 == p) with
      | some e => e.2.2
      | none => none }

def whyStr : Why → String
  | .helloTimeout => "helloTimeout" | .helloClosed => "helloClosed"
  | .notHello t => s!"notHello:{t}"
  | .emptyRealm => "emptyRealm" | .routerClosed => "routerClosed" | .routerClosing => "routerClosing" | .noSuchRealm => "noSuchRealm"
  | .realmCreateFailed => "realmCreateFailed" | .noRoles => "noRoles"
  | .noAuthSupplied => "noAuthSupplied" | .noAuthenticator => "noAuthenticator"
  | .missingAuthid => "missingAuthid" | .authRoleError => "authRoleError" | .keyError => "keyError"
  | .nonceError => "nonceError" | .challengeBlocked => "challengeBlocked"
  | .recvTimeout => "recvTimeout" | .recvClosed => "recvClosed" | .unexpectedMsg => "unexpectedMsg"
  | .invalidTicket => "invalidTicket" | .invalidSignature => "invalidSignature"
  | .sigDecode => "sigDecode" | .sigLength => "sigLength" | .onWelcomeError => "onWelcomeError"
  | .customError => "customError" | .realmClosing => "realmClosing"

def sentJ : Sent → Json
  | .challenge m e => .arr #[.str "challenge", .str m, dictJ e]
  | .abort r => .arr #[.str "abort", .str r]
  | .welcome sid d => .arr #[.str "welcome", .num (JsonNumber.fromNat sid), dictJ d]

def resultJ (rc : Option RealmCfg) (r : Result) : Json :=
  let common := [("sent", Json.arr (r.sent.map sentJ).toArray), ("joined", .bool r.joined),
                 ("created", .bool r.created.isSome), ("rest", .num (JsonNumber.fromNat r.rest.length))]
  match r.outcome with
  | .welcome sid sess w =>
    let (ms, inc) := match rc with | some c => (c.metaStrict, c.metaInc) | none => (false, [])
    Json.mkObj ([("outcome", .str "welcome"), ("sid", .num (JsonNumber.fromNat sid)),
                 ("welcome", dictJ w), ("session", dictJ sess),
                 ("observed", dictJ (cleanSessionDetails ms inc sess))] ++ common)
  | .abort reason why =>
    Json.mkObj ([("outcome", .str "abort"), ("reason", .str reason), ("why", .str (whyStr why))] ++ common)
  | .dropped why =>
    Json.mkObj ([("outcome", .str "dropped"), ("why", .str (whyStr why))] ++ common)

def helloRealm (arr : List Arrival) : String :=
  match arr with
  | { ev := .msg (.hello realm _), .. } :: _ => realm
  | _ => ""

def runScenario (j : Json) : Json :=
  let kss := (getObj j "keystores").map fun (n, k) => (n, toKeyStore k)
  let rj := (j.getObjVal? "router").toOption.getD Json.null
  let rt0 : RouterCfg :=
    { realms := (getArr rj "realms").map (toRealm kss)
      template := match rj.getObjVal? "template" with
        | .ok (.obj o) => some (toRealm kss (.obj o))
        | _ => none
      closing := getBool rj "closing" }
  let step (acc : RouterCfg × List Json) (h : Json) : RouterCfg × List Json :=
    let (rt, outs) := acc
    let arrivals := (getArr h "arrivals").map fun a =>
      { delay := getNat a "d", ev := (match a.getObjVal? "m" with | .ok m => toMsg m | _ => .close) : Arrival }
    let env : Env :=
      { isLocal := getBool h "local", transport := getDict h "transport",
        challengeBlocked := getBool h "blocked", routerRoles := .str "$roles",
        o := toOracle ((h.getObjVal? "oracle").toOption.getD Json.null) }
    let closingNow := getBool h "realmClosing"
    let rt : RouterCfg := if getBool h "routerClosed" then { rt with closed := true } else rt
    let rtNow : RouterCfg :=
      if closingNow then
        { rt with realms := rt.realms.map (fun r => { r with closing := true }),
                  template := rt.template.map (fun r => { r with closing := true }) }
      else rt
    let res := attach Facts.gen rtNow env arrivals
    let realm := helloRealm arrivals
    let rc := match findRealm rt.realms realm with | some c => some c | none => res.created
    let created := res.created.map (fun r => { r with closing := false })
    (routerAfter rt { res with created := created }, outs ++ [resultJ rc res])
  let (_, outs) := (getArr j "handshakes").foldl step (rt0, [])
  Json.mkObj [("results", Json.arr outs.toArray)]

def factsJ : Json :=
  Json.mkObj [
    ("cryptosignChecksChallenge", .bool Gen.Auth.cryptosignChecksChallenge),
    ("getAuthenticatorFirstMatch", .bool Gen.Auth.getAuthenticatorFirstMatch),
    ("helloTimeoutMs", .num (JsonNumber.fromNat Gen.Auth.helloTimeoutMs)),
    ("defaultCRAuthTimeoutMs", .num (JsonNumber.fromNat Gen.Auth.defaultCRAuthTimeoutMs)),
    ("helloSkip", .arr (Gen.Auth.helloSkip.map Json.str).toArray),
    ("welcomeSkip", .arr (Gen.Auth.welcomeSkip.map Json.str).toArray),
    ("hashes", Json.mkObj (Gen.Auth.hashes.map fun (n, h) => (n, Json.str h)))]

partial def loop (h : IO.FS.Stream) : IO Unit := do
  let line ← h.getLine
  if line.isEmpty then return ()
  let line := line.trimRight
  if line.isEmpty then loop h else
  match Json.parse line with
  | .error e => do IO.println (Json.mkObj [("err", .str s!"parse: {e}")]).compress; loop h
  | .ok j =>
    if getBool j "facts" then IO.println factsJ.compress
    else IO.println (runScenario j).compress
    loop h

def run (_args : List String) : IO UInt32 := do
  loop (← IO.getStdin)
  return 0

end Driver.Auth
