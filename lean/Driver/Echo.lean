namespace Driver.Echo

partial def loop (h : IO.FS.Stream) : IO Unit := do
  let line ← h.getLine
  if line.isEmpty then return ()
  IO.println line.trimRight
  loop h

def run (_args : List String) : IO UInt32 := do
  loop (← IO.getStdin)
  return 0

end Driver.Echo
