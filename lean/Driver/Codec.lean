/-
  nexus-driver codec: line protocol for the C14 models.

  Canonical value text (no whitespace):
    n | t | f | i<decimal> | d<16 hex: float64 bits> | s<hex bytes> | b<hex bytes>
    | [v,v,...] | {<hex key>:v,...}
  Dicts are rendered with keys sorted bytewise, last duplicate wins (Go map semantics);
  they are parsed in the order given.

  Requests (one per line) → answers:
    m2l <Struct> <[fields]>        → ok <list> | error <kind> | panic <site>
    m2ls <code>:<k><o>,... <[fields]>   the same over an explicit schema (k ∈ u i s m l = uint64 int
                                   string map slice; o ∈ o - = omitempty or not)
    rt <fmt> <Struct> <[fields]>   → msgToList, then the head check + listToMsg of <fmt>
    l2m <json|msgpack|cbor> <list> → ok <Struct> <[fields]> | error <kind> | panic <site>
    enc <fmt> <value>              → ok <hex> | invalid
    dec <fmt> <hex>                → ok <value> <hex rest> | unsupported | error
    deser <fmt> <hex>              → ok <Struct> <[fields]> | error <kind> | unsupported | panic <site>
    schema                         → the generated schema, one line
-/
import Nexus.Codec.Msg
import Nexus.Codec.Wire

namespace Driver.Codec

open Nexus.Codec Nexus.Gen

/-! ### hex -/

def hexDigit (n : Nat) : Char := if n < 10 then Char.ofNat (48 + n) else Char.ofNat (87 + n)

def hexOfBytes (b : Bytes) : String :=
  String.ofList (b.foldr (fun x acc => hexDigit (x.toNat / 16) :: hexDigit (x.toNat % 16) :: acc) [])

def hexVal (c : Char) : Option Nat :=
  if '0' ≤ c ∧ c ≤ '9' then some (c.toNat - 48)
  else if 'a' ≤ c ∧ c ≤ 'f' then some (c.toNat - 87)
  else if 'A' ≤ c ∧ c ≤ 'F' then some (c.toNat - 55)
  else none

/-- Leading hex pairs of `cs`; returns bytes and the rest. -/
partial def takeHex (cs : List Char) (acc : Array UInt8) : Bytes × List Char :=
  match cs with
  | a :: b :: rest =>
    match hexVal a, hexVal b with
    | some x, some y => takeHex rest (acc.push (UInt8.ofNat (x * 16 + y)))
    | _, _ => (acc.toList, cs)
  | _ => (acc.toList, cs)

def bytesOfHex (s : String) : Option Bytes :=
  match takeHex s.toList #[] with
  | (b, []) => some b
  | _ => none

/-! ### rendering -/

def bytesLt : Bytes → Bytes → Bool
  | [], [] => false
  | [], _ :: _ => true
  | _ :: _, [] => false
  | a :: as, b :: bs => a < b || (a == b && bytesLt as bs)

/-- Go map semantics: last duplicate wins, then sort by key. -/
def canonDict (d : List (Bytes × CVal)) : List (Bytes × CVal) :=
  let dedup := d.foldl (fun acc kv => (acc.filter fun p => p.1 != kv.1) ++ [kv]) []
  (dedup.toArray.qsort fun a b => bytesLt a.1 b.1).toList

partial def render : CVal → String
  | .null => "n"
  | .bool true => "t"
  | .bool false => "f"
  | .int i => "i" ++ toString i
  | .float b =>
    let n := b.toNat
    "d" ++ hexOfBytes ((List.range 8).map fun k => UInt8.ofNat (n / 256 ^ (7 - k) % 256))
  | .str s => "s" ++ hexOfBytes s
  | .bin b => "b" ++ hexOfBytes b
  | .list l => "[" ++ ",".intercalate (l.map render) ++ "]"
  | .dict d => "{" ++ ",".intercalate ((canonDict d).map fun (k, v) => hexOfBytes k ++ ":" ++ render v) ++ "}"

/-! ### parsing -/

def takeWhileC (p : Char → Bool) : List Char → List Char × List Char
  | [] => ([], [])
  | c :: cs => if p c then let (a, r) := takeWhileC p cs; (c :: a, r) else ([], c :: cs)

mutual
  partial def parseVal : List Char → Option (CVal × List Char)
    | 'n' :: r => some (.null, r)
    | 't' :: r => some (.bool true, r)
    | 'f' :: r => some (.bool false, r)
    | 'i' :: r =>
      let (neg, r) := match r with | '-' :: r' => (true, r') | _ => (false, r)
      let (ds, rest) := takeWhileC Char.isDigit r
      if ds.isEmpty then none
      else
        let n : Nat := ds.foldl (fun acc c => acc * 10 + (c.toNat - 48)) 0
        some (.int (if neg then -(n : Int) else n), rest)
    | 'd' :: r =>
      let (b, rest) := takeHex r #[]
      if b.length == 8 then some (.float (UInt64.ofNat (b.foldl (fun acc x => acc * 256 + x.toNat) 0)), rest) else none
    | 's' :: r => let (b, rest) := takeHex r #[]; some (.str b, rest)
    | 'b' :: r => let (b, rest) := takeHex r #[]; some (.bin b, rest)
    | '[' :: ']' :: r => some (.list [], r)
    | '[' :: r => parseItems r #[]
    | '{' :: '}' :: r => some (.dict [], r)
    | '{' :: r => parsePairs r #[]
    | _ => none
  partial def parseItems (cs : List Char) (acc : Array CVal) : Option (CVal × List Char) :=
    match parseVal cs with
    | some (v, ',' :: r) => parseItems r (acc.push v)
    | some (v, ']' :: r) => some (.list (acc.push v).toList, r)
    | _ => none
  partial def parsePairs (cs : List Char) (acc : Array (Bytes × CVal)) : Option (CVal × List Char) :=
    let (k, r) := takeHex cs #[]
    match r with
    | ':' :: r' =>
      match parseVal r' with
      | some (v, ',' :: r'') => parsePairs r'' (acc.push (k, v))
      | some (v, '}' :: r'') => some (.dict (acc.push (k, v)).toList, r'')
      | _ => none
    | _ => none
end

def parse (s : String) : Option CVal :=
  match parseVal s.toList with
  | some (v, []) => some v
  | _ => none

/-! ### requests -/

def errName : Err → String
  | .invalidMessage => "invalid-message"
  | .unsupportedFormat => "unsupported-format"
  | .unsupportedType => "unsupported-type"
  | .fieldNotRecognized i => s!"field-not-recognized {i}"
  | .notAList => "not-a-list"
  | .decode => "decode"

def renderMsgRes : Res Msg → String
  | .ok m => s!"ok {m.schema.name} {render (.list m.fields)}"
  | .error e => "error " ++ errName e
  | .panic s => "panic " ++ s

def fmtOf : String → Option Format
  | "json" => some .json
  | "msgpack" => some .msgpack
  | "cbor" => some .cbor
  | _ => none

/-- `<code>:<k><o>,...` with k ∈ u i s m l (uint64 int string map slice), o ∈ o - (omitempty). -/
def parseSchema (desc : String) : Option MsgSchema :=
  match desc.splitOn ":" with
  | [code, fs] =>
    let fields := (fs.splitOn ",").mapM fun (f : String) =>
      match f.toList with
      | [k, o] =>
        let kind : Option GoKind := match k with
          | 'u' => some .uint64 | 'i' => some .int | 's' => some .string
          | 'm' => some .mapStringAny | 'l' => some .sliceAny | _ => none
        kind.map fun kd => ({ name := "F", goType := "?", kind := kd, omitempty := o == 'o' } : FieldSchema)
      | _ => none
    match code.toNat?, fields with
    | some c, some fl => some { name := "Synthetic", code := c, fields := fl }
    | _, _ => none
  | _ => none

def handle (line : String) : String :=
  match line.splitOn " " with
  | ["m2l", name, fields] =>
    match Nexus.Gen.structs.find? (·.name == name), parse fields with
    | some s, some (.list fs) =>
      match msgToList { schema := s, fields := fs } with
      | .ok l => "ok " ++ render (.list l)
      | .error e => "error " ++ errName e
      | .panic site => "panic " ++ site
    | _, _ => "bad-request"
  | ["rt", f, name, fields] =>
    match fmtOf f, Nexus.Gen.structs.find? (·.name == name), parse fields with
    | some fmt, some s, some (.list fs) =>
      match msgToList { schema := s, fields := fs } with
      | .ok l => renderMsgRes (fromList fmt l)
      | .error e => "error " ++ errName e
      | .panic site => "panic " ++ site
    | _, _, _ => "bad-request"
  | ["m2ls", desc, fields] =>
    match parseSchema desc, parse fields with
    | some s, some (.list fs) =>
      match msgToList { schema := s, fields := fs } with
      | .ok l => "ok " ++ render (.list l)
      | .error e => "error " ++ errName e
      | .panic site => "panic " ++ site
    | _, _ => "bad-request"
  | ["l2m", f, v] =>
    match fmtOf f, parse v with
    | some fmt, some (.list l) => renderMsgRes (fromList fmt l)
    | _, _ => "bad-request"
  | ["enc", f, v] =>
    match fmtOf f, parse v with
    | some fmt, some v =>
      match Wire.encode fmt v with
      | some b => "ok " ++ hexOfBytes b
      | none => "invalid"
    | _, _ => "bad-request"
  | ["dec", f, h] =>
    match fmtOf f, bytesOfHex h with
    | some fmt, some b =>
      match Wire.decode fmt b with
      | .ok (v, rest) => s!"ok {render v} {if rest.isEmpty then "-" else hexOfBytes rest}"
      | .error .unsupported => "unsupported"
      | .error .malformed => "error"
    | _, _ => "bad-request"
  | ["deser", f, h] =>
    match fmtOf f, bytesOfHex h with
    | some fmt, some b =>
      match Wire.deserialize fmt b with
      | .ok r => renderMsgRes r
      | .error .unsupported => "unsupported"
      | .error .malformed => "error decode"
    | _, _ => "bad-request"
  | ["schema"] =>
    ";".intercalate (Nexus.Gen.structs.map fun s =>
      s!"{s.code}:{s.name}:" ++ ",".intercalate (s.fields.map fun f =>
        s!"{f.name}/{f.goType}/{if f.omitempty then "o" else "-"}"))
  | _ => "bad-request"

partial def loop (h : IO.FS.Stream) (out : IO.FS.Stream) : IO Unit := do
  let line ← h.getLine
  if line.isEmpty then return ()
  out.putStrLn (handle (String.ofList (line.toList.reverse.dropWhile (fun c => c == '\n' || c == '\r')).reverse))
  loop h out

def run (_args : List String) : IO UInt32 := do
  let out ← IO.getStdout
  loop (← IO.getStdin) out
  out.flush
  return 0

end Driver.Codec
