/-
  nexus-driver codec: line protocol for the C14 models.

  Canonical value text (no whitespace):
    n | t | f | i<decimal> | d<16 hex: float64 bits> | s<hex bytes> | b<hex bytes>
    | [v,v,...] | {<hex key>:v,...}
  Dicts are rendered with keys sorted bytewise, last duplicate wins (Go map semantics);
  they are parsed in the order given.

  Requests (one per line) → answers:
    m2l <Struct> <[fields]>        → ok <list> | error <kind> | panic <site>
    m2ls <code>:<k><o>,... <[fields]>   the same over an explicit schema (k ∈ u i s m l = uint64 int
                                   string map slice; o ∈ o - = omitempty or not)
    rt <fmt> <Struct> <[fields]>   → msgToList, then the head check + listToMsg of <fmt>
    l2m <json|msgpack|cbor> <list> → ok <Struct> <[fields]> | error <kind> | panic <site>
    enc <fmt> <value>              → ok <hex> | invalid
    dec <fmt> <hex>                → ok <value> <hex rest> | unsupported | error
    deser <fmt> <hex>              → ok <Struct> <[fields]> | error <kind> | unsupported | panic <site>
    schema                         → the generated schema, one line

  JSON with floats / binaries (Nexus/Codec/WpDJsonO.lean).  <orc> is a table of sampled oracle
  answers, entries separated by `;`, `-` when empty:
      f<16 hex float bits>=<hex of the bytes EncodeFloat64 writes>
      p<hex of a number token>=<16 hex float bits of parseFloat64_custom | x for an error>
  (a float / token that is not in the table: empty output / error).
    jorc <orc>                     → ok <n> | fail d<bits> <flags any-digit,all-numchar,parse,int-shape as 0/1>
                                     (`FloatOrc.faithfulAt` on every finite f entry)
    jenc <orc> <value>             → ok <hex> (`Json.encO`) | orc-miss
    jdec <orc> <hex>               → ok <value> <hex rest> | unsupported | error   (`Json.decO`)
    jdeser <orc> <hex>             → like deser json, over `Json.decO`; `unsupported num` when the
                                     cause is a number token (`-`, `-0`), `unsupported other` else
    bdm <hex>                      → ok <hex>                                   (`Json.marshalBD`)
    bdu <hex>                      → ok <hex> | error | unsupported | panic     (`Json.unmarshalBD`)
    bdupre <hex>                   → the same for the pre-fix code              (`Json.unmarshalBDPre`)
    b64d <hex>                     → ok <hex> | error                           (`B64.dec`)
-/
import Nexus.Codec.Msg
import Nexus.Codec.Wire
import Nexus.Codec.WpDWireO
import Nexus.Codec.WpDBinaryData

namespace Driver.Codec

open Nexus.Codec Nexus.Gen

/-! ### hex -/

def hexDigit (n : Nat) : Char := if n < 10 then Char.ofNat (48 + n) else Char.ofNat (87 + n)

def hexOfBytes (b : Bytes) : String :=
  String.ofList (b.foldr (fun x acc => hexDigit (x.toNat / 16) :: hexDigit (x.toNat % 16) :: acc) [])

def hexVal (c : Char) : Option Nat :=
  if '0' ≤ c ∧ c ≤ '9' then some (c.toNat - 48)
  else if 'a' ≤ c ∧ c ≤ 'f' then some (c.toNat - 87)
  else if 'A' ≤ c ∧ c ≤ 'F' then some (c.toNat - 55)
  else none

/-- Leading hex pairs of `cs`; returns bytes and the rest. -/
partial def takeHex (cs : List Char) (acc : Array UInt8) : Bytes × List Char :=
  match cs with
  | a :: b :: rest =>
    match hexVal a, hexVal b with
    | some x, some y => takeHex rest (acc.push (UInt8.ofNat (x * 16 + y)))
    | _, _ => (acc.toList, cs)
  | _ => (acc.toList, cs)

def bytesOfHex (s : String) : Option Bytes :=
  match takeHex s.toList #[] with
  | (b, []) => some b
  | _ => none

/-! ### rendering -/

def bytesLt : Bytes → Bytes → Bool
  | [], [] => false
  | [], _ :: _ => true
  | _ :: _, [] => false
  | a :: as, b :: bs => a < b || (a == b && bytesLt as bs)

/-- Go map semantics: last duplicate wins, then sort by key. -/
def canonDict (d : List (Bytes × CVal)) : List (Bytes × CVal) :=
  let dedup := d.foldl (fun acc kv => (acc.filter fun p => p.1 != kv.1) ++ [kv]) []
  (dedup.toArray.qsort fun a b => bytesLt a.1 b.1).toList

partial def render : CVal → String
  | .null => "n"
  | .bool true => "t"
  | .bool false => "f"
  | .int i => "i" ++ toString i
  | .float b =>
    let n := b.toNat
    "d" ++ hexOfBytes ((List.range 8).map fun k => UInt8.ofNat (n / 256 ^ (7 - k) % 256))
  | .str s => "s" ++ hexOfBytes s
  | .bin b => "b" ++ hexOfBytes b
  | .list l => "[" ++ ",".intercalate (l.map render) ++ "]"
  | .dict d => "{" ++ ",".intercalate ((canonDict d).map fun (k, v) => hexOfBytes k ++ ":" ++ render v) ++ "}"

/-! ### parsing -/

def takeWhileC (p : Char → Bool) : List Char → List Char × List Char
  | [] => ([], [])
  | c :: cs => if p c then let (a, r) := takeWhileC p cs; (c :: a, r) else ([], c :: cs)

mutual
  partial def parseVal : List Char → Option (CVal × List Char)
    | 'n' :: r => some (.null, r)
    | 't' :: r => some (.bool true, r)
    | 'f' :: r => some (.bool false, r)
    | 'i' :: r =>
      let (neg, r) := match r with | '-' :: r' => (true, r') | _ => (false, r)
      let (ds, rest) := takeWhileC Char.isDigit r
      if ds.isEmpty then none
      else
        let n : Nat := ds.foldl (fun acc c => acc * 10 + (c.toNat - 48)) 0
        some (.int (if neg then -(n : Int) else n), rest)
    | 'd' :: r =>
      let (b, rest) := takeHex r #[]
      if b.length == 8 then some (.float (UInt64.ofNat (b.foldl (fun acc x => acc * 256 + x.toNat) 0)), rest) else none
    | 's' :: r => let (b, rest) := takeHex r #[]; some (.str b, rest)
    | 'b' :: r => let (b, rest) := takeHex r #[]; some (.bin b, rest)
    | '[' :: ']' :: r => some (.list [], r)
    | '[' :: r => parseItems r #[]
    | '{' :: '}' :: r => some (.dict [], r)
    | '{' :: r => parsePairs r #[]
    | _ => none
  partial def parseItems (cs : List Char) (acc : Array CVal) : Option (CVal × List Char) :=
    match parseVal cs with
    | some (v, ',' :: r) => parseItems r (acc.push v)
    | some (v, ']' :: r) => some (.list (acc.push v).toList, r)
    | _ => none
  partial def parsePairs (cs : List Char) (acc : Array (Bytes × CVal)) : Option (CVal × List Char) :=
    let (k, r) := takeHex cs #[]
    match r with
    | ':' :: r' =>
      match parseVal r' with
      | some (v, ',' :: r'') => parsePairs r'' (acc.push (k, v))
      | some (v, '}' :: r'') => some (.dict (acc.push (k, v)).toList, r'')
      | _ => none
    | _ => none
end

def parse (s : String) : Option CVal :=
  match parseVal s.toList with
  | some (v, []) => some v
  | _ => none

/-! ### requests -/

def errName : Err → String
  | .invalidMessage => "invalid-message"
  | .unsupportedFormat => "unsupported-format"
  | .unsupportedType => "unsupported-type"
  | .fieldNotRecognized i => s!"field-not-recognized {i}"
  | .notAList => "not-a-list"
  | .decode => "decode"

def renderMsgRes : Res Msg → String
  | .ok m => s!"ok {m.schema.name} {render (.list m.fields)}"
  | .error e => "error " ++ errName e
  | .panic s => "panic " ++ s

def fmtOf : String → Option Format
  | "json" => some .json
  | "msgpack" => some .msgpack
  | "cbor" => some .cbor
  | _ => none

/-- `<code>:<k><o>,...` with k ∈ u i s m l (uint64 int string map slice), o ∈ o - (omitempty). -/
def parseSchema (desc : String) : Option MsgSchema :=
  match desc.splitOn ":" with
  | [code, fs] =>
    let fields := (fs.splitOn ",").mapM fun (f : String) =>
      match f.toList with
      | [k, o] =>
        let kind : Option GoKind := match k with
          | 'u' => some .uint64 | 'i' => some .int | 's' => some .string
          | 'm' => some .mapStringAny | 'l' => some .sliceAny | _ => none
        kind.map fun kd => ({ name := "F", goType := "?", kind := kd, omitempty := o == 'o' } : FieldSchema)
      | _ => none
    match code.toNat?, fields with
    | some c, some fl => some { name := "Synthetic", code := c, fields := fl }
    | _, _ => none
  | _ => none

/-! ### JSON oracle tables -/

def u64OfHex (h : String) : Option UInt64 :=
  match bytesOfHex h with
  | some b => if b.length == 8 then some (UInt64.ofNat (b.foldl (fun acc x => acc * 256 + x.toNat) 0)) else none
  | none => none

structure OrcTable where
  f : List (UInt64 × Bytes) := []
  p : List (Bytes × Option UInt64) := []

def parseOrc (t : String) : Option OrcTable :=
  if t == "-" then some {}
  else
    (t.splitOn ";").foldlM (init := ({} : OrcTable)) fun acc e =>
      match e.toList with
      | 'f' :: rest =>
        match (String.ofList rest).splitOn "=" with
        | [bits, tok] =>
          match u64OfHex bits, bytesOfHex tok with
          | some b, some tk => some { acc with f := (b, tk) :: acc.f }
          | _, _ => none
        | _ => none
      | 'p' :: rest =>
        match (String.ofList rest).splitOn "=" with
        | [tok, res] =>
          match bytesOfHex tok with
          | some tk =>
            if res == "x" then some { acc with p := (tk, none) :: acc.p }
            else match u64OfHex res with
              | some b => some { acc with p := (tk, some b) :: acc.p }
              | none => none
          | none => none
        | _ => none
      | _ => none

def OrcTable.orc (t : OrcTable) : Json.FloatOrc where
  fmt b := ((t.f.find? fun e => e.1 == b).map (·.2)).getD []
  parse tok := ((t.p.find? fun e => e.1 == tok).map (·.2)).getD none

mutual
  partial def floatsOf : CVal → List UInt64
    | .float b => [b]
    | .list l => l.flatMap floatsOf
    | .dict d => d.flatMap fun kv => floatsOf kv.2
    | _ => []
end

def u64Hex (b : UInt64) : String :=
  hexOfBytes ((List.range 8).map fun k => UInt8.ofNat (b.toNat / 256 ^ (7 - k) % 256))

def b01 (b : Bool) : String := if b then "1" else "0"

def handleJson (line : String) : Option String :=
  match line.splitOn " " with
  | ["jorc", t] =>
    match parseOrc t with
    | some tbl =>
      let orc := tbl.orc
      let bad := tbl.f.find? fun e => Json.isFinite e.1 && !orc.faithfulAt e.1
      match bad with
      | none => some s!"ok {tbl.f.length}"
      | some (b, _) =>
        let tok := orc.fmt b
        some s!"fail d{u64Hex b} {b01 (tok.any Json.isDigit)}{b01 (tok.all Json.isNumChar)}{b01 (Json.lossyIntegral b || orc.parse tok == some b)}{b01 (Json.smallIntTok tok == Json.lossyIntegral b)}"
    | none => some "bad-request"
  | ["jenc", t, v] =>
    match parseOrc t, parse v with
    | some tbl, some v =>
      if (floatsOf v).any fun b => Json.isFinite b && !(tbl.f.any fun e => e.1 == b) then some "orc-miss"
      else some ("ok " ++ hexOfBytes (Json.encO tbl.orc v))
    | _, _ => some "bad-request"
  | ["jdec", t, h] =>
    match parseOrc t, bytesOfHex h with
    | some tbl, some b =>
      match Json.decO tbl.orc b with
      | .ok (v, rest) => some s!"ok {render v} {if rest.isEmpty then "-" else hexOfBytes rest}"
      | .error .unsupported => some "unsupported"
      | .error .malformed => some "error"
    | _, _ => some "bad-request"
  | ["jdeser", t, h] =>
    match parseOrc t, bytesOfHex h with
    | some tbl, some b =>
      match Wire.deserializeJsonO tbl.orc b with
      | .ok r => some (renderMsgRes r)
      | .error .unsupported =>
        -- is a number token the cause?  Read `-` / `-0` as nil and look again.
        let num' := fun tok => match Json.decNumTokO tbl.orc tok with
          | .error .unsupported => .ok .null
          | r => r
        match Json.decVG num' (b.length + 1) b with
        | .error .unsupported => some "unsupported other"
        | _ => some "unsupported num"
      | .error .malformed => some "error decode"
    | _, _ => some "bad-request"
  | ["bdm", h] =>
    match bytesOfHex h with
    | some b => some ("ok " ++ hexOfBytes (Json.marshalBD b))
    | none => some "bad-request"
  | ["bdu", h] =>
    match bytesOfHex h with
    | some b =>
      match Json.unmarshalBD b with
      | .ok r => some ("ok " ++ (if r.isEmpty then "-" else hexOfBytes r))
      | .error => some "error"
      | .unsupported => some "unsupported"
      | .panic _ => some "panic"
    | none => some "bad-request"
  | ["bdupre", h] =>
    match bytesOfHex h with
    | some b =>
      match Json.unmarshalBDPre b with
      | .ok r => some ("ok " ++ (if r.isEmpty then "-" else hexOfBytes r))
      | .error => some "error"
      | .unsupported => some "unsupported"
      | .panic _ => some "panic"
    | none => some "bad-request"
  | ["b64d", h] =>
    match bytesOfHex h with
    | some b =>
      match B64.dec b with
      | some r => some ("ok " ++ (if r.isEmpty then "-" else hexOfBytes r))
      | none => some "error"
    | none => some "bad-request"
  | _ => none

def handle (line : String) : String :=
  match handleJson line with
  | some ans => ans
  | none =>
  match line.splitOn " " with
  | ["m2l", name, fields] =>
    match Nexus.Gen.structs.find? (·.name == name), parse fields with
    | some s, some (.list fs) =>
      match msgToList { schema := s, fields := fs } with
      | .ok l => "ok " ++ render (.list l)
      | .error e => "error " ++ errName e
      | .panic site => "panic " ++ site
    | _, _ => "bad-request"
  | ["rt", f, name, fields] =>
    match fmtOf f, Nexus.Gen.structs.find? (·.name == name), parse fields with
    | some fmt, some s, some (.list fs) =>
      match msgToList { schema := s, fields := fs } with
      | .ok l => renderMsgRes (fromList fmt l)
      | .error e => "error " ++ errName e
      | .panic site => "panic " ++ site
    | _, _, _ => "bad-request"
  | ["m2ls", desc, fields] =>
    match parseSchema desc, parse fields with
    | some s, some (.list fs) =>
      match msgToList { schema := s, fields := fs } with
      | .ok l => "ok " ++ render (.list l)
      | .error e => "error " ++ errName e
      | .panic site => "panic " ++ site
    | _, _ => "bad-request"
  | ["l2m", f, v] =>
    match fmtOf f, parse v with
    | some fmt, some (.list l) => renderMsgRes (fromList fmt l)
    | _, _ => "bad-request"
  | ["enc", f, v] =>
    match fmtOf f, parse v with
    | some fmt, some v =>
      match Wire.encode fmt v with
      | some b => "ok " ++ hexOfBytes b
      | none => "invalid"
    | _, _ => "bad-request"
  | ["dec", f, h] =>
    match fmtOf f, bytesOfHex h with
    | some fmt, some b =>
      match Wire.decode fmt b with
      | .ok (v, rest) => s!"ok {render v} {if rest.isEmpty then "-" else hexOfBytes rest}"
      | .error .unsupported => "unsupported"
      | .error .malformed => "error"
    | _, _ => "bad-request"
  | ["deser", f, h] =>
    match fmtOf f, bytesOfHex h with
    | some fmt, some b =>
      match Wire.deserialize fmt b with
      | .ok r => renderMsgRes r
      | .error .unsupported => "unsupported"
      | .error .malformed => "error decode"
    | _, _ => "bad-request"
  | ["schema"] =>
    ";".intercalate (Nexus.Gen.structs.map fun s =>
      s!"{s.code}:{s.name}:" ++ ",".intercalate (s.fields.map fun f =>
        s!"{f.name}/{f.goType}/{if f.omitempty then "o" else "-"}"))
  | _ => "bad-request"

partial def loop (h : IO.FS.Stream) (out : IO.FS.Stream) : IO Unit := do
  let line ← h.getLine
  if line.isEmpty then return ()
  out.putStrLn (handle (String.ofList (line.toList.reverse.dropWhile (fun c => c == '\n' || c == '\r')).reverse))
  loop h out

def run (_args : List String) : IO UInt32 := do
  let out ← IO.getStdout
  loop (← IO.getStdin) out
  out.flush
  return 0

end Driver.Codec
