/-
  nexus-driver l2: the realm model behind the line protocol of DESIGN.md Appendix C.

  in : {"cfg":{...}}                          → {"ok":true} | {"err":"config"}
       {"op":"join","s":k,"local":b,"details":{..},"roles":{"callee":["f",..],..},"cap":n}
       {"op":"msg","s":k,"m":[code, ...fields]}
       {"op":"drop"|"stall"|"resume","s":k}   {"op":"tick","ms":n}   {"op":"rnd","n":n}
  out: {"out":{"k":[[code,...],...]},"closed":[k,...],"panic":null|"text"}

  Session ids are written {"$sid":k} in inputs and "$s<k>" in outputs, publication ids
  "$p<n>"; every message is rendered with all its fields (no trailing omission).
-/
import Lean.Data.Json
import Nexus.L2.Router

namespace Driver.L2
open Lean Nexus Nexus.L2

/-- publication ids of the PUBLISHED messages seen so far: `{"$pub": j}` names the j-th -/
abbrev Pubs := List Nat

partial def toWValP (pubs : Pubs) : Json → Except String WVal
  | .null => pure .null
  | .bool b => pure (.bool b)
  | .num n => if n.exponent == 0 then pure (.int n.mantissa) else throw "non-integer number"
  | .str s => pure (.str s)
  | .arr a => do
    let l ← a.toList.mapM (toWValP pubs)
    pure (.list l)
  | .obj o => do
    let kvs := o.toList
    match kvs with
    | [("$sid", .num n)] => pure (.int (sidOf n.mantissa.toNat))
    | [("$pub", .num n)] => pure (.int (pubs.getD n.mantissa.toNat (pubBase + 90000000 + n.mantissa.toNat)))
    | _ =>
      let l ← kvs.mapM (fun (k, v) => do let w ← toWValP pubs v; pure (k, w))
      pure (.dict l)

def toWVal (j : Json) : Except String WVal := toWValP [] j

partial def ofWVal : WVal → Json
  | .null => .null
  | .bool b => .bool b
  | .int i =>
    if i ≥ (pubBase : Int) ∧ i < (pubBase : Int) + 100000000 then .str s!"$p{i.toNat - pubBase}"
    else if i ≥ (sidBase : Int) ∧ i < (sidBase : Int) + 100000000 then .str s!"$s{i.toNat - sidBase}"
    else .num (JsonNumber.fromInt i)
  | .str s => .str s
  | .list l => .arr (l.map ofWVal).toArray
  | .dict d => Json.mkObj (d.map (fun (k, v) => (k, ofWVal v)))

def natJ (n : Nat) : Json := ofWVal (.int n)
def dictJ (d : Dict) : Json := ofWVal (.dict d)
def listJ (l : List WVal) : Json := ofWVal (.list l)

def ofMsg : Msg → Json
  | .hello realm d => .arr #[natJ 1, .str realm, dictJ d]
  | .welcome s d => .arr #[natJ 2, natJ s, dictJ d]
  | .abort d reason => .arr #[natJ 3, dictJ d, .str reason]
  | .goodbye d reason => .arr #[natJ 6, dictJ d, .str reason]
  | .error t r d e a k => .arr #[natJ 8, natJ t, natJ r, dictJ d, .str e, listJ a, dictJ k]
  | .publish r o t a k => .arr #[natJ 16, natJ r, dictJ o, .str t, listJ a, dictJ k]
  | .published r p => .arr #[natJ 17, natJ r, natJ p]
  | .subscribe r o t => .arr #[natJ 32, natJ r, dictJ o, .str t]
  | .subscribed r s => .arr #[natJ 33, natJ r, natJ s]
  | .unsubscribe r s => .arr #[natJ 34, natJ r, natJ s]
  | .unsubscribed r => .arr #[natJ 35, natJ r]
  | .event s p d a k => .arr #[natJ 36, natJ s, natJ p, dictJ d, listJ a, dictJ k]
  | .call r o p a k => .arr #[natJ 48, natJ r, dictJ o, .str p, listJ a, dictJ k]
  | .cancel r o => .arr #[natJ 49, natJ r, dictJ o]
  | .result r d a k => .arr #[natJ 50, natJ r, dictJ d, listJ a, dictJ k]
  | .register r o p => .arr #[natJ 64, natJ r, dictJ o, .str p]
  | .registered r g => .arr #[natJ 65, natJ r, natJ g]
  | .unregister r g => .arr #[natJ 66, natJ r, natJ g]
  | .unregistered r => .arr #[natJ 67, natJ r]
  | .invocation r g d a k => .arr #[natJ 68, natJ r, natJ g, dictJ d, listJ a, dictJ k]
  | .interrupt r o => .arr #[natJ 69, natJ r, dictJ o]
  | .yield r o a k => .arr #[natJ 70, natJ r, dictJ o, listJ a, dictJ k]
  | .other t => .arr #[natJ t]

def asNat (v : WVal) : Except String Nat :=
  match v with
  | .int i => if i ≥ 0 then pure i.toNat else throw "negative id"
  | _ => throw "id expected"

def asDictE (v : WVal) : Except String Dict :=
  match v with
  | .dict d => pure d
  | .null => pure []
  | _ => throw "dict expected"

def asListE (v : WVal) : Except String (List WVal) :=
  match v with
  | .list l => pure l
  | .null => pure []
  | _ => throw "list expected"

def asStrE (v : WVal) : Except String String :=
  match v with
  | .str s => pure s
  | _ => throw "string expected"

def nth (l : List WVal) (i : Nat) : WVal := l.getD i .null

def toMsg (pubs : Pubs) (j : Json) : Except String Msg := do
  let v ← toWValP pubs j
  match v with
  | .list (.int code :: f) =>
    match code with
    | 6 => pure (.goodbye (← asDictE (nth f 0)) (← asStrE (nth f 1)))
    | 8 => pure (.error (← asNat (nth f 0)) (← asNat (nth f 1)) (← asDictE (nth f 2)) (← asStrE (nth f 3))
                  (← asListE (nth f 4)) (← asDictE (nth f 5)))
    | 16 => pure (.publish (← asNat (nth f 0)) (← asDictE (nth f 1)) (← asStrE (nth f 2))
                  (← asListE (nth f 3)) (← asDictE (nth f 4)))
    | 32 => pure (.subscribe (← asNat (nth f 0)) (← asDictE (nth f 1)) (← asStrE (nth f 2)))
    | 34 => pure (.unsubscribe (← asNat (nth f 0)) (← asNat (nth f 1)))
    | 48 => pure (.call (← asNat (nth f 0)) (← asDictE (nth f 1)) (← asStrE (nth f 2))
                  (← asListE (nth f 3)) (← asDictE (nth f 4)))
    | 49 => pure (.cancel (← asNat (nth f 0)) (← asDictE (nth f 1)))
    | 64 => pure (.register (← asNat (nth f 0)) (← asDictE (nth f 1)) (← asStrE (nth f 2)))
    | 66 => pure (.unregister (← asNat (nth f 0)) (← asNat (nth f 1)))
    | 70 => pure (.yield (← asNat (nth f 0)) (← asDictE (nth f 1)) (← asListE (nth f 2)) (← asDictE (nth f 3)))
    | c => pure (.other c.toNat)
  | _ => throw "message must be a list starting with its type code"

def getNat (j : Json) (k : String) (dflt : Nat := 0) : Nat :=
  match j.getObjVal? k with
  | .ok (.num n) => n.mantissa.toNat
  | _ => dflt

def getBool (j : Json) (k : String) (dflt : Bool := false) : Bool :=
  match j.getObjVal? k with
  | .ok (.bool b) => b
  | _ => dflt

def getStr (j : Json) (k : String) (dflt : String := "") : String :=
  match j.getObjVal? k with
  | .ok (.str s) => s
  | _ => dflt

def getArr (j : Json) (k : String) : List Json :=
  match j.getObjVal? k with
  | .ok (.arr a) => a.toList
  | _ => []

def toRoles (j : Json) : Roles :=
  match j with
  | .obj o => o.toList.map fun (role, fs) =>
    (role, match fs with
      | .arr a => a.toList.filterMap (fun x => match x with | .str s => some s | _ => none)
      | _ => [])
  | _ => []

def toConfig (j : Json) : Config :=
  { uri := getStr j "uri" "r"
    strict := getBool j "strict"
    allowDisclose := getBool j "disclose"
    metaKill := getBool j "metaKill"
    metaModify := getBool j "metaModify"
    metaStrict := getBool j "metaStrict"
    metaInc := (getArr j "metaInc").filterMap (fun x => match x with | .str s => some s | _ => none)
    localAuthz := getBool j "localAuthz"
    authz := match j.getObjVal? "authz" with
      | .ok (.arr a) => some (a.toList.map fun x =>
          { typ := getNat x "type", uri := getStr x "uri",
            sess := (match x.getObjVal? "sess" with | .ok (.num n) => some n.mantissa.toNat | _ => none),
            decision := getStr x "decision" "allow" })
      | _ => none
    history := (getArr j "history").map fun x => (getStr x "topic", getStr x "match", getNat x "limit") }

def toROp (pubs : Pubs) (j : Json) : Except String ROp := do
  let op := getStr j "op"
  let s := getNat j "s"
  match op with
  | "join" =>
    let details ← match j.getObjVal? "details" with
      | .ok d => do let w ← toWVal d; asDictE w
      | _ => pure []
    let roles := match j.getObjVal? "roles" with | .ok r => toRoles r | _ => []
    pure (.join (getStr j "realm" "r1") s (getBool j "local" true) details roles (getNat j "cap" 64))
  | "msg" =>
    match j.getObjVal? "m" with
    | .ok m => do pure (.sess s (.msg s (← toMsg pubs m)))
    | _ => throw "msg without m"
  | "drop" => pure (.sess s (.drop s))
  | "stall" => pure (.sess s (.stall s))
  | "resume" => pure (.sess s (.resume s))
  | "tick" => pure (.tick (getNat j "ms"))
  | "rnd" => pure (.rnd (getNat j "n"))
  | "close" => pure .close
  | "removeRealm" => pure (.removeRealm (getStr j "realm"))
  | "addRealm" =>
    match j.getObjVal? "cfg" with
    | .ok c => pure (.addRealm (toConfig c))
    | _ => throw "addRealm without cfg"
  | o => throw s!"unknown op {o}"

def render (o : RObserved) : String :=
  let out := Json.mkObj (o.out.map fun (k, ms) => (toString k, Json.arr (ms.map ofMsg).toArray))
  let closed := Json.arr (o.closed.map (fun k => Json.num (JsonNumber.fromNat k))).toArray
  let p := match o.panic with | some t => Json.str t | none => Json.null
  (Json.mkObj ([("out", out), ("closed", closed), ("panic", p)] ++
    (if o.refused then [("note", Json.str "refused")] else []))).compress

/-- {"cfg": {...}} configures one realm, {"cfg": [{...},...]} several. -/
def toConfigs (c : Json) : List Config :=
  match c with
  | .arr a => a.toList.map toConfig
  | _ => match c.getObjVal? "realms" with
    | .ok (.arr a) => a.toList.map toConfig
    | _ => [toConfig c]

def publishedIds (o : RObserved) : List Nat :=
  let sorted := o.out.mergeSort (fun a b => a.1 ≤ b.1)
  sorted.flatMap fun (_, ms) => ms.filterMap fun m => match m with
    | .published _ p => some p
    | _ => none

partial def loop (h : IO.FS.Stream) (r : Option Router) (pubs : Pubs := []) : IO Unit := do
  let line ← h.getLine
  if line.isEmpty then return ()
  let line := line.trimRight
  if line.isEmpty then loop h r pubs else
  match Json.parse line with
  | .error e => do IO.println (Json.mkObj [("err", .str s!"parse: {e}")]).compress; loop h r pubs
  | .ok j =>
    match j.getObjVal? "cfg", j.getObjVal? "op" with
    | .ok c, .error _ =>
      let tmpl : Option Config := match c.getObjVal? "template" with
        | .ok t => some (toConfig t)
        | .error _ => none
      match Router.create (toConfigs c) with
      | some r' => do IO.println "{\"ok\":true}"; loop h (some { r' with template := tmpl }) []
      | none => do IO.println "{\"err\":\"config\"}"; loop h none []
    | _, _ =>
      match r with
      | none => do IO.println "{\"err\":\"no router\"}"; loop h r pubs
      | some r0 =>
        if getStr j "op" == "snapshot" then do
          let js := Json.mkObj (r0.sizes.map fun (name, sz) =>
            (name, Json.mkObj (sz.map fun (k, n) => (k, Json.num (JsonNumber.fromNat n)))))
          IO.println (Json.mkObj [("out", Json.mkObj []), ("closed", Json.arr #[]), ("panic", Json.null), ("sizes", js)]).compress
          loop h r pubs
        else
        match toROp pubs j with
        | .error e => do IO.println (Json.mkObj [("err", .str e)]).compress; loop h r pubs
        | .ok op =>
          let (obs, r1) := Router.step r0 op
          -- a session attached through a socket transport ("via"): its inbound messages are buffered
          let r1 := match op, j.getObjVal? "via" with
            | .join _ k .., .ok (.str _) => (Router.step r1 (.sess k (.buffer k))).2
            | _, _ => r1
          IO.println (render obs)
          loop h (some r1) (pubs ++ publishedIds obs)

def run (_args : List String) : IO UInt32 := do
  loop (← IO.getStdin) none
  return 0

end Driver.L2
