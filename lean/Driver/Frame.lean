/-
  nexus-driver frame: line protocol of the rawsocket framing/handshake model.

    shake <recvLimit> <8 hex digits>            serverHandshake on a 4-byte request
        -> reply=<hex|-> result=ok ser=<name> send=<n> recv=<n>
         | reply=<hex|-> result=error msg=<text to end of line>
    shakebytes <recvLimit> <hex of what the client wrote before it stopped, 0..4+ bytes | ->
        -> reply=<hex|-> closed=<0|1> result=…  AcceptRawSocket incl. a handshake cut short (same result syntax)
    chs <protocol> <recvLimit> <hex of what the server wrote, 0..4+ bytes | ->
        -> req=<hex> result=…                  (same result syntax)
    frame <sendLimit> <payload length>          sender: header only
        -> drop | hdr=<8 hex digits>
    stream <recvLimit> <hex bytes | ->          reader over a whole stream, de := identity
        -> delivered=<hex;hex;…|-> (an empty payload is `.`) nil=<k> written=<hex|-> state=<waiting:<where>|closed:<why>>
    streameof <recvLimit> <hex bytes | ->       reader over a whole stream that then ENDS, de := identity
        -> delivered=… nil=<k> written=… state=closed:<why>   (as `stream`; why may be eof-clean | eof-partial)
           at=<hdr0|hdr|msg|ping|echo|pong|closed>           where the reader was when the stream ended
           log=<text, blanks as _ | ->  cancel=<0|1>  conn=<0|1>   what recvHandler does on its way out
                                                               (`readErrAction`; all - / 0 when at=closed)
    hashes                                      -> drift=<comma separated names|->

  Core-only.
-/
import Nexus.Frame.Handshake
import Nexus.Frame.Stream
import Nexus.Frame.Reconciled

namespace Driver.Frame
open Nexus Nexus.Frame

def hexDigit (n : Nat) : Char := "0123456789abcdef".toList.getD n '0'

def hex (bs : List UInt8) : String :=
  if bs.isEmpty then "-" else
  String.ofList (bs.flatMap (fun b => [hexDigit (b.toNat / 16), hexDigit (b.toNat % 16)]))

def nib (c : Char) : Option Nat :=
  if '0' ≤ c ∧ c ≤ '9' then some (c.toNat - '0'.toNat)
  else if 'a' ≤ c ∧ c ≤ 'f' then some (c.toNat - 'a'.toNat + 10)
  else if 'A' ≤ c ∧ c ≤ 'F' then some (c.toNat - 'A'.toNat + 10)
  else none

def unhexAux : List Char → List UInt8 → Option (List UInt8)
  | [], acc => some acc.reverse
  | a :: b :: rest, acc =>
    match nib a, nib b with
    | some x, some y => unhexAux rest (UInt8.ofNat (x * 16 + y) :: acc)
    | _, _ => none
  | _, _ => none

def unhex (s : String) : Option (List UInt8) :=
  if s == "-" then some [] else unhexAux s.toList []

def showResult : HsResult → String
  | .ok c => s!"result=ok ser={c.serializer.getD "nil"} send={c.sendLimit} recv={c.recvLimit}"
  | .error m => s!"result=error msg={m}"

def showState : RState → String
  | .hdr0 => "waiting:hdr0"
  | .hdr1 _ => "waiting:hdr1"
  | .hdr2 _ _ => "waiting:hdr2"
  | .hdr3 _ _ _ => "waiting:hdr3"
  | .body n _ => s!"waiting:body{n + 1}"
  | .pbody _ _ _ n _ => s!"waiting:ping{n + 1}"
  | .echo n => s!"waiting:echo{n + 1}"
  | .discard n => s!"waiting:discard{n + 1}"
  | .closed .oversize => "closed:oversize"
  | .closed .reservedType => "closed:reserved"
  | .closed .undeserialisable => "closed:undeserialisable"
  | .closed (.eof false) => "closed:eof-clean"
  | .closed (.eof true) => "closed:eof-partial"

/-- Which read the reader was blocked in. -/
def showAt : RState → String
  | .hdr0 => "hdr0"
  | .hdr1 _ | .hdr2 _ _ | .hdr3 _ _ _ => "hdr"
  | .body _ _ => "msg"
  | .pbody _ _ _ _ _ => "ping"
  | .echo _ => "echo"
  | .discard _ => "pong"
  | .closed _ => "closed"

def showAction : Option ReadErrAction → String
  | none => "log=- cancel=0 conn=0"
  | some a =>
    let l := match a.logs with
      | none => "-"
      | some t => t.replace " " "_"
    s!"log={l} cancel={if a.cancelsSender then 1 else 0} conn={if a.closesConn then 1 else 0}"

def answer (line : String) : String :=
  match line.splitOn " " with
  | ["shake", r, h] =>
    match r.toInt?, unhex h with
    | some r, some [b0, b1, b2, b3] =>
      let o := serverHandshake b0 b1 b2 b3 r
      s!"reply={hex (o.reply.getD [])} {showResult o.result}"
    | _, _ => "error bad-args"
  | ["shakebytes", r, h] =>
    match r.toInt?, unhex h with
    | some r, some bs =>
      let o := acceptRawSocket r bs
      s!"reply={hex (o.reply.getD [])} closed={if o.connClosed then 1 else 0} {showResult o.result}"
    | _, _ => "error bad-args"
  | ["chs", p, r, h] =>
    match p.toNat?, r.toInt?, unhex h with
    | some p, some r, some rep =>
      let p := UInt8.ofNat p
      s!"req={hex (clientRequest p r)} {showResult (clientHandshakeReply p r rep)}"
    | _, _, _ => "error bad-args"
  | ["frame", sl, n] =>
    match sl.toInt?, n.toNat? with
    | some sl, some n =>
      if Gen.sendDrop (Int.ofNat n) sl then "drop" else s!"hdr={hex (frameHeader n)}"
    | _, _ => "error bad-args"
  | ["stream", rl, h] =>
    match rl.toInt?, unhex h with
    | some rl, some bytes =>
      let (evs, st) := decodeStream (M := List UInt8) some rl bytes
      let d := delivered evs
      let ds := if d.isEmpty then "-" else ";".intercalate (d.map (fun p => if p.isEmpty then "." else hex p))
      s!"delivered={ds} nil={nilCount evs} written={hex (written evs)} state={showState st}"
    | _, _ => "error bad-args"
  | ["streameof", rl, h] =>
    match rl.toInt?, unhex h with
    | some rl, some bytes =>
      let (evs, st) := decodeStreamEOF (M := List UInt8) some rl bytes
      let before := (decodeStream (M := List UInt8) some rl bytes).2
      let d := delivered evs
      let ds := if d.isEmpty then "-" else ";".intercalate (d.map (fun p => if p.isEmpty then "." else hex p))
      s!"delivered={ds} nil={nilCount evs} written={hex (written evs)} state={showState st} at={showAt before} {showAction (readErrAction before)}"
    | _, _ => "error bad-args"
  | ["hashes"] => s!"drift={if hashDrift.isEmpty then "-" else ",".intercalate hashDrift}"
  | _ => "error unknown-op"

partial def loop (h : IO.FS.Stream) : IO Unit := do
  let line ← h.getLine
  if line.isEmpty then return ()
  IO.println (answer line.trimAsciiEnd.toString)
  (← IO.getStdout).flush  -- the family keeps one driver process and talks to it line by line
  loop h

def run (_args : List String) : IO UInt32 := do
  loop (← IO.getStdin)
  return 0

end Driver.Frame
