/-
  nexus-driver client: the client model behind a JSON line protocol (one line in, one line out).

  pure queries
    {"q":"unpack","fn":"ppt"|"e2ee"|"event"|"invocation"|"result","bare":b?,"dealer_ppt":b,
     "details":{..},"args":[..],"kw":{..},"deser":{"kind":"err"|"nil"|"val","args":[..],"kw":{..}}}
        → {"r":"ok"|"error"|"panic"|"dropped"|"handle"|"errorReply"|"proceed"|"abort"|"err", …}
    {"q":"facts"}    → the regenerated facts the model is instantiated with
    {"q":"witness","name":"f16"|"f16dup"|"pptabort"|"dupinv"} → the Lean witness run through the model

  rendezvous scripts (timed; see Nexus.Client.Sim)
    {"cfg":{"timeout":ms,"cancel_mode":s,"dealer_ppt":b,"event_delay":ms,"prog_delay":ms,
            "behav":{"proc":{"delay":ms,"res":uri,"wait_ctx":b,"on_cancel":uri}},
            "policy":{"run_first":b,"timers_first":b,"wedge":b},"debug":b,
            "deser":[{"ser":s,"hex":s,"kind":..,"args":..,"kw":..}], "escapes":b?, "bare":b?}} → {"ok":true}
    {"t":ms,"stim":"api","g":n,"op":"subscribe"|…,"name":s,"prog":b}
    {"t":ms,"stim":"router","m":[code,…]}   {"t":ms,"stim":"rclose"}
    {"t":ms,"stim":"cancel","g":n,"kind":"canceled"|"deadline"}   {"t":ms,"stim":"close"}
    {"end":ms}
        → {"out":[[t,kind,…],…],"stuck":b}

  values: JSON, plus {"$bin":"hex"}, {"$payload":{"nil":b,"args":[..],"kw":{..}}}, {"$other":"float64"}.
-/
import Lean.Data.Json
import Nexus.Client.Sim
import Nexus.Client.Witness

namespace Driver.Client
open Lean Nexus Nexus.Client Nexus.Gen

def hexVal (c : Char) : Nat :=
  if '0' ≤ c ∧ c ≤ '9' then c.toNat - '0'.toNat
  else if 'a' ≤ c ∧ c ≤ 'f' then c.toNat - 'a'.toNat + 10
  else if 'A' ≤ c ∧ c ≤ 'F' then c.toNat - 'A'.toNat + 10 else 0

def unhex (s : String) : List UInt8 :=
  let rec go : List Char → List UInt8
    | a :: b :: rest => UInt8.ofNat (hexVal a * 16 + hexVal b) :: go rest
    | _ => []
  go s.toList

def hexDigit (n : Nat) : Char := if n < 10 then Char.ofNat (48 + n) else Char.ofNat (87 + n)

def hex (b : List UInt8) : String :=
  String.ofList (b.flatMap fun x => [hexDigit (x.toNat / 16), hexDigit (x.toNat % 16)])

partial def toVal : Json → Val
  | .null => .null
  | .bool b => .bool b
  | .num n => if n.exponent == 0 then .int n.mantissa else .other "float64"
  | .str s => .str s
  | .arr a => .list (a.toList.map toVal)
  | .obj o =>
    match o.toList with
    | [("$bin", .str h)] => .bin (unhex h)
    | [("$other", .str t)] => .other t
    | [("$payload", p)] =>
      let isNil := match p.getObjVal? "nil" with | .ok (.bool b) => b | _ => false
      let args := match p.getObjVal? "args" with | .ok (.arr a) => a.toList.map toVal | _ => []
      let kw := match p.getObjVal? "kw" with | .ok (.obj k) => k.toList.map (fun (k, v) => (k, toVal v)) | _ => []
      .payload isNil args kw
    | kvs => .dict (kvs.map fun (k, v) => (k, toVal v))

partial def ofVal : Val → Json
  | .null => .null
  | .bool b => .bool b
  | .int i => .num (JsonNumber.fromInt i)
  | .str s => .str s
  | .bin b => Json.mkObj [("$bin", .str (hex b))]
  | .list l => .arr (l.map ofVal).toArray
  | .dict d => Json.mkObj (d.map fun (k, v) => (k, ofVal v))
  | .payload n a k => Json.mkObj [("$payload", Json.mkObj [("nil", .bool n), ("args", .arr (a.map ofVal).toArray),
      ("kw", Json.mkObj (k.map fun (k, v) => (k, ofVal v)))])]
  | .other t => Json.mkObj [("$other", .str t)]

def listJ (l : List Val) : Json := .arr (l.map ofVal).toArray
def dictJ (d : Client.Dict) : Json := Json.mkObj (d.map fun (k, v) => (k, ofVal v))
def natJ (n : Nat) : Json := .num (JsonNumber.fromNat n)

def getNat (j : Json) (k : String) (dflt : Nat := 0) : Nat :=
  match j.getObjVal? k with
  | .ok (.num n) => n.mantissa.toNat
  | _ => dflt

def getBool (j : Json) (k : String) (dflt : Bool := false) : Bool :=
  match j.getObjVal? k with
  | .ok (.bool b) => b
  | _ => dflt

def getBool? (j : Json) (k : String) : Option Bool :=
  match j.getObjVal? k with
  | .ok (.bool b) => some b
  | _ => none

def getStr (j : Json) (k : String) (dflt : String := "") : String :=
  match j.getObjVal? k with
  | .ok (.str s) => s
  | _ => dflt

def getList (j : Json) (k : String) : List Val :=
  match j.getObjVal? k with
  | .ok (.arr a) => a.toList.map toVal
  | _ => []

def getDict (j : Json) (k : String) : Client.Dict :=
  match j.getObjVal? k with
  | .ok (.obj o) => o.toList.map fun (k, v) => (k, toVal v)
  | _ => []

def toDeserRes (j : Json) : DeserRes :=
  match getStr j "kind" "err" with
  | "nil" => .nil
  | "val" => .val (getList j "args") (getDict j "kw")
  | _ => .err

def pptErrStr : PptErr → String
  | .serializerInvalid => "serializerInvalid"
  | .serialization => "serialization"
  | .schemeInvalid => "schemeInvalid"
  | .notSupportedByRouter => "notSupportedByRouter"

def okJ (r : String) (extra : List (String × Json) := []) : Json := Json.mkObj (("r", .str r) :: extra)

def unpackedJ : Outcome Unpacked → Json
  | .panic s => okJ "panic" [("site", .str s)]
  | .ok (.error e) => okJ "error" [("err", .str (pptErrStr e))]
  | .ok (.ok (a, k)) => okJ "ok" [("args", listJ a), ("kw", dictJ k)]

def queryUnpack (j : Json) : Json :=
  let F : PptFacts := if (getBool? j "bare").getD false then PptFacts.allBare else PptFacts.gen
  let d := getDict j "details"
  let a := getList j "args"
  let k := getDict j "kw"
  let dr := match j.getObjVal? "deser" with | .ok x => toDeserRes x | _ => .err
  let deser : Deser := fun _ _ => dr
  match getStr j "fn" with
  | "ppt" => unpackedJ (unpackPPTPayload F deser d a)
  | "e2ee" => unpackedJ (unpackE2EEPayload F deser d a)
  | "event" =>
    match eventPpt F deser d a k with
    | .panic s => okJ "panic" [("site", .str s)]
    | .ok (.dropped e) => okJ "dropped" [("err", .str (pptErrStr e))]
    | .ok (.handle a k) => okJ "handle" [("args", listJ a), ("kw", dictJ k)]
  | "invocation" =>
    match invocationPpt F deser d a k with
    | .panic s => okJ "panic" [("site", .str s)]
    | .ok (.errorReply e) => okJ "errorReply" [("err", .str (pptErrStr e))]
    | .ok (.proceed a k) => okJ "proceed" [("args", listJ a), ("kw", dictJ k)]
  | "result" =>
    match prepareCallResult F deser (getBool j "dealer_ppt" true) d a k with
    | .panic s => okJ "panic" [("site", .str s)]
    | .ok .abort => okJ "abort"
    | .ok (.err e) => okJ "err" [("err", .str (pptErrStr e))]
    | .ok (.ok a k) => okJ "ok" [("args", listJ a), ("kw", dictJ k)]
  | f => Json.mkObj [("err", .str s!"unknown fn {f}")]

def factsJ : Json :=
  Json.mkObj [
    ("reply_chan_cap", natJ Gen.Client.replyChanCap),
    ("signal_has_escape", .bool Gen.Client.signalHasEscape),
    ("signal_escapes", .bool R.genSignalEscapes),
    ("deletes_entry", .bool R.genDeletesEntry),
    ("abort_closes_send", .bool R.genAbortClosesSend),
    ("final_gate", .bool I.genFinalGate),
    ("enqueue_escapes", .bool I.genEnqueueEscapes),
    ("inv_gate", .bool Gen.Client.invGateChecked),
    ("inv_queue_cap", natJ Gen.Client.invQueueCap),
    ("default_timeout_ms", natJ Gen.Client.defaultResponseTimeoutMs),
    ("default_cancel_mode", .str Gen.Client.defaultCancelMode),
    ("close_wait_factor", natJ Gen.Client.closeWaitFactor),
    ("hashes_reconciled", .bool Witness.hashesReconciled),
    ("changed_functions", .arr (Witness.changedFunctions.map Json.str).toArray)]

/-! ### messages -/

def nth (l : List Json) (i : Nat) : Json := l.getD i .null
def jNat (j : Json) : Nat := match j with | .num n => n.mantissa.toNat | _ => 0
def jStr (j : Json) : String := match j with | .str s => s | _ => ""
def jDict (j : Json) : Client.Dict := match j with | .obj o => o.toList.map (fun (k, v) => (k, toVal v)) | _ => []
def jList (j : Json) : List Val := match j with | .arr a => a.toList.map toVal | _ => []

def toRMsg (j : Json) : RMsg :=
  match j with
  | .arr a =>
    match a.toList with
    | code :: f =>
      match jNat code with
      | 36 => .event (jNat (nth f 0)) (jNat (nth f 1)) (jDict (nth f 2)) (jList (nth f 3)) (jDict (nth f 4))
      | 68 => .invocation (jNat (nth f 0)) (jNat (nth f 1)) (jDict (nth f 2)) (jList (nth f 3)) (jDict (nth f 4))
      | 69 => .interrupt (jNat (nth f 0)) (jDict (nth f 1))
      | 65 => .registered (jNat (nth f 0)) (jNat (nth f 1))
      | 33 => .subscribed (jNat (nth f 0)) (jNat (nth f 1))
      | 35 => .unsubscribed (jNat (nth f 0))
      | 67 => .unregistered (jNat (nth f 0))
      | 50 => .result (jNat (nth f 0)) (jDict (nth f 1)) (jList (nth f 2)) (jDict (nth f 3))
      | 17 => .published (jNat (nth f 0)) (jNat (nth f 1))
      | 8 => .error (jNat (nth f 0)) (jNat (nth f 1)) (jDict (nth f 2)) (jStr (nth f 3)) (jList (nth f 4)) (jDict (nth f 5))
      | 6 => .goodbye (jDict (nth f 0)) (jStr (nth f 1))
      | 3 => .abort (jDict (nth f 0)) (jStr (nth f 1))
      | c => .other c
    | [] => .other 0
  | _ => .other 0

def ofCMsg : CMsg → Json
  | .subscribe r t => .arr #[natJ 32, natJ r, .str t]
  | .unsubscribe r s => .arr #[natJ 34, natJ r, natJ s]
  | .publish r t ack => .arr #[natJ 16, natJ r, .str t, .bool ack]
  | .register r p => .arr #[natJ 64, natJ r, .str p]
  | .unregister r g => .arr #[natJ 66, natJ r, natJ g]
  | .call r p prog => .arr #[natJ 48, natJ r, .str p, .bool prog]
  | .callChunk r p prog more => .arr #[natJ 48, natJ r, .str p, .bool prog, .bool more]
  | .cancel r mode => .arr #[natJ 49, natJ r, .str mode]
  | .yield r prog => .arr #[natJ 70, natJ r, .bool prog]
  | .error t r e => .arr #[natJ 8, natJ t, natJ r, .str e]
  | .goodbye reason => .arr #[natJ 6, .str reason]
  | .abort reason => .arr #[natJ 3, .str reason]

def expectedCode : R.OpKind → Nat
  | .subscribe => 33 | .unsubscribe => 35 | .register => 65 | .unregister => 67
  | .publish => 17 | .publishNoAck => 17 | .call => 50

/-- The canonical rendering of what an API call returned (the harness classifies the Go error
    values the same way). -/
def retJ (op : R.OpKind) (r : R.Ret) : List Json :=
  match r with
  | .ok => [.str "ok"]
  | .timeout => [.str "timeout"]
  | .notConn => [.str "notconn"]
  | .ctx .canceled => [.str "ctx:canceled"]
  | .ctx .deadline => [.str "ctx:deadline"]
  | .notSubscribed => [.str "notsubscribed"]
  | .notRegistered => [.str "notregistered"]
  | .pptAbort => [.str "pptabort"]
  | .pptErr e => [.str ("ppterr:" ++ pptErrStr e)]
  | .msg m =>
    match m with
    | .error _ _ _ uri _ _ => [.str ("error:" ++ uri)]
    | .result _ _ a k =>
      if op == .call then [.str "result", listJ a, dictJ k] else [.str s!"unexpected:{R.typeCode m}"]
    | .subscribed _ sub => if op == .subscribe then [.str "ok", natJ sub] else [.str s!"unexpected:{R.typeCode m}"]
    | .registered _ reg => if op == .register then [.str "ok", natJ reg] else [.str s!"unexpected:{R.typeCode m}"]
    | _ => if R.typeCode m == expectedCode op then [.str "ok"] else [.str s!"unexpected:{R.typeCode m}"]

def obsJ (dbg : Bool) (ops : Nat → R.OpKind) (t : Nat) (o : Sim.Obs) (reqOf : Nat → Nat := fun _ => 0) : Option Json :=
  let mk (xs : List Json) : Option Json := some (.arr (natJ t :: xs).toArray)
  match o with
  | .crashed site => mk [.str "crashed", .str site]
  | .rejected what => mk [.str "rejected", .str what]
  | .r (.send m) => mk [.str "send", ofCMsg m]
  | .r (.ret g r) => mk ([.str "ret", natJ g] ++ retJ (ops g) r)
  | .r (.progress g (.result _ _ a k)) => mk [.str "progress", natJ g, listJ a, dictJ k]
  | .r (.eventStart sub pub a k) => mk [.str "event", natJ sub, natJ pub, listJ a, dictJ k]
  | .r .done => mk [.str "done"]
  | .r .closeReturned => mk [.str "close_returned"]
  | .i (.send m) => mk [.str "send", ofCMsg m]
  | .p (.send _ m) => mk [.str "send", ofCMsg m]
  | .i (.progressSent w) => mk [.str "sp", natJ (reqOf w), .str "ok"]
  | .i (.progressRefused w) => mk [.str "sp", natJ (reqOf w), .str "refused"]
  | .i (.handlerStart _ i) => mk [.str "inv", natJ i.req, natJ i.reg, listJ i.args, dictJ i.kw, .bool i.progress]
  | .r (.handed g m) => if dbg then mk [.str "dbg", .str "handed", natJ g, natJ (R.typeCode m)] else none
  | .r (.unclaimed m) => if dbg then mk [.str "dbg", .str "unclaimed", natJ (R.typeCode m)] else none
  | .r (.eventDropped s) => if dbg then mk [.str "dbg", .str "event_dropped", natJ s] else none
  | .r (.unhandled c) => if dbg then mk [.str "dbg", .str "unhandled", natJ c] else none
  | .i (.ignored r) => if dbg then mk [.str "dbg", .str "ignored", natJ r] else none
  | .i (.lost _ i) => if dbg then mk [.str "dbg", .str "lost", natJ i.req] else none
  | .i (.created w r g) => if dbg then mk [.str "dbg", .str "created", natJ w, natJ r, natJ g] else none
  | _ => none

def toOp (s : String) : R.OpKind :=
  match s with
  | "subscribe" => .subscribe | "unsubscribe" => .unsubscribe | "register" => .register
  | "unregister" => .unregister | "publish" => .publish | "publish_noack" => .publishNoAck | _ => .call

def toPolicy (pol : Json) : Sim.Policy :=
  { runFirst := getBool pol "run_first"
    timersFirst := getBool pol "timers_first" true
    wedge := getBool pol "wedge"
    exitFirst := getBool pol "exit_first"
    swapExits := getBool pol "swap_exits"
    apiLast := getBool pol "api_last" }

def toCfg (j : Json) : Sim.Cfg × Bool :=
  let table : List (String × List UInt8 × DeserRes) :=
    match j.getObjVal? "deser" with
    | .ok (.arr a) => a.toList.map fun e => (getStr e "ser", unhex (getStr e "hex"), toDeserRes e)
    | _ => []
  let deser : Deser := fun s b =>
    match table.find? (fun e => e.1 == s && e.2.1 == b) with
    | some e => e.2.2
    | none => .err
  let F : PptFacts := if (getBool? j "bare").getD false then PptFacts.allBare else PptFacts.gen
  let pol := match j.getObjVal? "policy" with | .ok p => p | _ => Json.mkObj []
  let behav : List (String × Sim.Behav) :=
    match j.getObjVal? "behav" with
    | .ok (.obj o) => o.toList.map fun (name, b) =>
        (name, { delay := getNat b "delay", res := getStr b "res", waitCtx := getBool b "wait_ctx",
                 onCancel := getStr b "on_cancel" N.ErrCanceled, progress := getNat b "progress" })
    | _ => []
  let cm := getStr j "cancel_mode"
  let cm := if cm == "" then Gen.Client.defaultCancelMode else cm
  let rcfg : R.Cfg :=
    { timeout := getNat j "timeout" 1000
      cancelMode := cm
      signalEscapes := (getBool? j "escapes").getD R.genSignalEscapes
      ppt := F
      dealerPPT := getBool j "dealer_ppt" true
      deser := deser }
  let icfg : I.Cfg := { ppt := F, deser := deser }
  let pol := toPolicy pol
  let cfg : Sim.Cfg :=
    { r := rcfg
      i := icfg
      eventDelay := getNat j "event_delay"
      progDelay := getNat j "prog_delay"
      behav := behav
      policy := pol }
  (cfg, getBool j "debug")

structure Sess where
  cfg : Sim.Cfg := {}
  dbg : Bool := false
  s : Sim.S := {}
  seen : Nat := 0

/-- A fingerprint of the model state: equal fingerprints = same continuation (used by the family's
    schedule search to avoid exploring equivalent choices twice). -/
def fingerprint (s : Sim.S) : UInt64 :=
  let ws := s.gs.map fun g => (g, s.r.ws g, s.r.awaiting (s.r.ws g).req)
  let wk := (List.range s.i.n).map fun w => (s.i.ws w, s.i.kill (s.i.ws w).req, s.i.progGate (s.i.ws w).req)
  let txt := toString (repr (s.r.now, s.r.idgen.toNat, ws, s.r.inbox, s.r.run, s.r.recvDone, s.r.done, s.r.sendClosed)) ++
    toString (repr (s.r.eventHandlers, s.r.topicSub, s.r.invHandlers, s.r.procReg, s.r.close, s.r.crashed)) ++
    toString (repr (s.i.lastRecv.toNat, wk, s.i.pendingSend, s.i.clientDone, s.i.crashed, s.timers, s.waitCtx, s.handed)) ++
    toString (repr (s.gs.map fun g => (s.p.ss g), s.scripts, s.pwait, s.p.crashed, s.spTodo, s.ctxEnded))
  hash txt

def flush (x : Sess) (withFp : Bool := false) : Sess × Json :=
  let new := (x.s.log.take (x.s.log.length - x.seen)).reverse
  let ops : Nat → R.OpKind := fun g => (x.s.r.ws g).op
  let outs := new.filterMap fun (t, o) => obsJ x.dbg ops t o (fun w => (x.s.i.ws w).req)
  ({ x with seen := x.s.log.length },
   Json.mkObj [("out", .arr outs.toArray), ("stuck", .bool (Sim.stuck x.cfg x.s)),
               ("fp", .str (if withFp then toString (fingerprint x.s) else ""))])

/-- `{"$req":g}` in a router message = the request id API call g drew (9000+g if it drew none). -/
def resolveReq (x : Sess) (j : Json) : Json :=
  match j with
  | .arr a => .arr (a.map fun e =>
      match e with
      | .obj o =>
        match o.toList with
        | [("$req", .num n)] =>
          let g := n.mantissa.toNat
          let w := x.s.r.ws g
          natJ (if w.req != 0 then w.req else 9000 + g)
        | _ => e
      | _ => e)
  | _ => j

def toStim (x : Sess) (j : Json) : Option Sim.Stim :=
  match getStr j "stim" with
  | "api" =>
    if getStr j "op" == "callprog" then
      let script : List (Nat × String) := match j.getObjVal? "script" with
        | .ok (.arr a) => a.toList.map fun e => (getNat e "d", getStr e "k")
        | _ => []
      some (.apiProg (getNat j "g") (getStr j "name") (getBool j "prog") script)
    else some (.api (getNat j "g") (toOp (getStr j "op")) (getStr j "name") (getBool j "prog"))
  | "router" => match j.getObjVal? "m" with | .ok m => some (.router (toRMsg (resolveReq x m))) | _ => none
  | "rclose" => some .rclose
  | "cancel" => some (.cancel (getNat j "g") (if getStr j "kind" == "deadline" then .deadline else .canceled))
  | "close" => some .close
  | _ => none

def witnessJ (name : String) : Json :=
  match Witness.run name with
  | none => Json.mkObj [("err", .str "unknown witness")]
  | some w =>
    let ops : Nat → R.OpKind := w.ops
    let outs := w.log.filterMap fun o => obsJ false ops 0 o
    Json.mkObj [("out", .arr outs.toArray), ("stuck", .bool w.stuck), ("crashed", match w.crashed with | some s => .str s | none => .null),
                ("scenario", .str w.scenario)]

def say (s : String) : IO Unit := do
  IO.println s
  (← IO.getStdout).flush

/-- `saves`: sessions stored by `{"save":k}` (the schedule search of the family backtracks to them). -/
partial def loop (h : IO.FS.Stream) (x : Sess) (saves : List (Nat × Sess)) : IO Unit := do
  let line ← h.getLine
  if line.isEmpty then return ()
  let line := line.trimAsciiEnd.toString
  if line.isEmpty then loop h x saves else
  match Json.parse line with
  | .error e => do say (Json.mkObj [("err", .str s!"parse: {e}")]).compress; loop h x saves
  | .ok j =>
    match j.getObjVal? "q" with
    | .ok (.str "unpack") => do say (queryUnpack j).compress; loop h x saves
    | .ok (.str "facts") => do say factsJ.compress; loop h x saves
    | .ok (.str "witness") => do say (witnessJ (getStr j "name")).compress; loop h x saves
    | _ =>
    match j.getObjVal? "save" with
    | .ok (.num n) => do
      say "{\"ok\":true}"
      loop h x ((n.mantissa.toNat, x) :: saves.filter (fun p => p.1 != n.mantissa.toNat))
    | _ =>
    match j.getObjVal? "restore" with
    | .ok (.num n) =>
      match saves.find? (fun p => p.1 == n.mantissa.toNat) with
      | some (_, y) => do say "{\"ok\":true}"; loop h y saves
      | none => do say "{\"err\":\"no such save\"}"; loop h x saves
    | _ =>
    match j.getObjVal? "probe" with
    | .ok (.num n) =>
      -- what would be observed if time passed to n; the session itself is not advanced
      let (_, out) := flush { x with s := Sim.finishAt x.cfg x.s n.mantissa.toNat }
      say out.compress
      loop h x saves
    | _ =>
      match j.getObjVal? "cfg" with
      | .ok c =>
        let (cfg, dbg) := toCfg c
        say "{\"ok\":true}"
        loop h { cfg := cfg, dbg := dbg } saves
      | .error _ =>
        match j.getObjVal? "end" with
        | .ok (.num n) =>
          let (x, out) := flush { x with s := Sim.finishAt x.cfg x.s n.mantissa.toNat } (getBool j "fp")
          say out.compress
          loop h x saves
        | _ =>
          match toStim x j with
          | none => do say "{\"err\":\"bad line\"}"; loop h x saves
          | some st =>
            -- a stimulus may carry the scheduling policy to use from here on
            let x := match j.getObjVal? "policy" with
              | .ok p => { x with cfg := { x.cfg with policy := toPolicy p } }
              | _ => x
            let (x, out) := flush { x with s := Sim.stimulus x.cfg x.s (getNat j "t") st (getBool j "hold") }
            say out.compress
            loop h x saves

def run (_args : List String) : IO UInt32 := do
  loop (← IO.getStdin) {} []
  return 0

end Driver.Client
